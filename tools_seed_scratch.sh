#!/bin/bash
# usage: tools_seed_scratch.sh <prop> <src_seed_dir> <name>
# Like tools_seed.sh, but the detection run uses a scratch worktree (VERIF_REPO) and a scratch copy of
# /verif (VERIF_DIR), so it can run while other checks are using /repo. The official run against /repo
# itself is done afterwards with tools_reseed.sh.
set -u
export GOFLAGS=-mod=mod GOPROXY=off GOSUMDB=off GOTOOLCHAIN=local
prop=$1; src=$2; name=$3
dst=/verif/seeded/$name
mkdir -p $dst
cp $src/patch.diff $src/meta.json $dst/ 2>/dev/null
cp $src/demo_test.go $dst/demo_test.go.txt 2>/dev/null
demodir=$(python3 -c "import json;print(json.load(open('$src/meta.json')).get('demo_dir','.'))" 2>/dev/null || echo .)
[ "$demodir" = "" ] && demodir=.
demoflags=$(python3 -c "import json;print(json.load(open('$src/meta.json')).get('demo_flags',''))" 2>/dev/null || echo "")
if grep -q "^package jparse" $src/demo_test.go; then demodir=jparse; fi
if grep -q "^package jlib" $src/demo_test.go; then demodir=jlib; fi
if grep -q "^package jxpath" $src/demo_test.go; then demodir=jlib/jxpath; fi
sc=/tmp/sc_$name
git -C /repo worktree remove --force $sc 2>/dev/null
git -C /repo worktree add -q $sc HEAD || exit 2
res_apply=fail; res_suite=fail
cp $src/demo_test.go $sc/$demodir/zz_demo_test.go
if (cd $sc && timeout 300 go test $demoflags -count=1 -timeout 120s ./$demodir >/tmp/sc_$name.demo2 2>&1); then res_demo_orig=pass; else res_demo_orig=fail; fi
rm -f $sc/$demodir/zz_demo_test.go
if git -C $sc apply $dst/patch.diff; then res_apply=ok; fi
if (cd $sc && go build ./... && go test -count=1 ./... >/tmp/sc_$name.suite 2>&1); then res_suite=pass; fi
cp $src/demo_test.go $sc/$demodir/zz_demo_test.go
if (cd $sc && timeout 300 go test $demoflags -count=1 -timeout 120s ./$demodir >/tmp/sc_$name.demo1 2>&1); then res_demo_mut=pass; else res_demo_mut=fail; fi
rm -f $sc/$demodir/zz_demo_test.go
echo "seed $name: apply=$res_apply suite=$res_suite demo(with change)=$res_demo_mut demo(unchanged)=$res_demo_orig"
confirmed=false
if [ $res_apply = ok ] && [ $res_suite = pass ] && [ $res_demo_mut = fail ] && [ $res_demo_orig = pass ]; then confirmed=true; fi
detected=skipped
if $confirmed; then
  vc=/tmp/vcopy_$name
  rm -rf $vc; mkdir -p $vc
  rsync -a --exclude out --exclude .git --exclude seeded /verif/ $vc/
  (cd $vc && VERIF_DIR=$vc VERIF_REPO=$sc /verif/bin/gosym check $prop quick > $dst/check_output.txt 2>&1); rc=$?
  rm -rf $vc
  if [ $rc -eq 1 ] && grep -q "^VIOLATION property=$prop" $dst/check_output.txt; then detected="yes(scratch)"; else detected="no(rc=$rc,scratch)"; fi
fi
git -C /repo worktree remove --force $sc
python3 - <<PY
import json
m=json.load(open('$dst/meta.json'))
m.update({"confirmed_in_scratch_worktree":$([ $confirmed = true ] && echo True || echo False),"suite_with_change":"$res_suite","demo_with_change":"$res_demo_mut","demo_unchanged":"$res_demo_orig","detected_by_quick_check":"$detected"})
json.dump(m,open('$dst/meta.json','w'),indent=1)
PY
echo "seed $name: confirmed=$confirmed detected=$detected"
