#!/usr/bin/env python3
# Regenerates MANIFEST.json from harness/specs.json (claimed = properties that have a spec).
import json
props=[json.loads(l) for l in open('/verif/properties.jsonl')]
specs=json.load(open('/verif/harness/specs.json'))
na_reasons=json.load(open('/verif/harness/not_applicable.json'))
claimed=set(specs.keys())
checks=[]
for p in props:
    pid=p['id']
    if pid in claimed:
        sp=specs[pid]
        checks.append({
          "property_id": pid,
          "quick_cmd": "./check %s quick"%pid,
          "thorough_cmd": "./check %s thorough"%pid,
          "evidence_file": "/verif/evidence/%s.json"%pid,
          "replay_cmd_template": "./check %s --replay {path}"%pid,
          "engine": "gosym",
          "level_claimed": {"category":"model_checking","text":"Bounded symbolic execution of the real Go SSA of /repo (re-encoded from the working tree on every run): inputs are symbolic, every branch feasibility and every assertion is decided by an SMT solver, all paths within the bounds are explored; a sat answer is replayed against the natively compiled code before it is reported. Bounds: "+sp.get('bounds',''),"design_ref":"DESIGN.md §0.3 (as built) and §6 "+pid},
          "level_note": "Outside the claim: "+sp.get('outside','')+" Stubs: "+"; ".join(sp.get('stubs',[]))+". Trusted: go/ssa translation, the gosym interpreter and models (validated by native replay of sampled passing paths), the SMT solver.",
          "technique": sp.get("technique","bounded symbolic execution of Go SSA + SMT (z3/cvc5), native replay of counterexamples")
        })
na=[{"property_id":p['id'],"reason":na_reasons.get(p['id'],"check not yet built; see DESIGN.md §10")} for p in props if p['id'] not in claimed]
m={"version":1,
 "setup_cmd":"cd /verif/engine && GOFLAGS=-mod=vendor GOPROXY=off GOTOOLCHAIN=local go build -o /verif/bin/gosym ./cmd/gosym",
 "hooks":{"guard":"verif","enable":"harness files live in /verif/harness and are injected by overlay with build tag verif (go/packages Overlay for the encoder, `go test -tags verif -overlay` for native replay); no file in /repo is changed for instrumentation","baseline_off_cmd":"cd /repo && GOFLAGS=-mod=mod GOPROXY=off go test -vet=off -count=1 ./...","source_commits":[],"add_only":True},
 "engines":[{"name":"gosym","path":"/verif/engine","serves_properties":sorted(claimed),"kind_free_text":"bounded symbolic executor for Go SSA (x/tools v0.29.0 vendored) with z3 / cvc5 back ends, native replay of counterexamples"}],
 "checks":checks,
 "not_applicable":na,
 "notes":"See DESIGN.md. known_findings.json lists fixed/known defects; harness/specs.json lists harnesses, bounds and stubs per property."}
json.dump(m,open('/verif/MANIFEST.json','w'),indent=1)
print("claimed:",sorted(claimed))
