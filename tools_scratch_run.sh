#!/bin/bash
# usage: tools_scratch_run.sh <seedname> <pkg> <harness> <solver> [params]   -- runs one harness against a scratch worktree with the seed applied
name=$1; pkg=$2; h=$3; solver=$4; params=${5:-}
sc=/tmp/sr_$name
git -C /repo worktree remove --force $sc 2>/dev/null
git -C /repo worktree add -q $sc HEAD || exit 2
git -C $sc apply /verif/seeded/$name/patch.diff || { echo "patch failed"; git -C /repo worktree remove --force $sc; exit 2; }
OV='(*github.com/blues/jsonata-go.transformationCallable).clone=VerifSummary_clone'
[ "$pkg" = jsonata ] || OV=""; [ -n "${NO_OVERRIDE:-}" ] && OV=""
(cd /verif && VERIF_REPO=$sc timeout 1200 ./bin/gosym run -pkg $pkg -harness $h -solver $solver -workers 8 -wall 900s -params "$params" -override "$OV" 2>&1 | grep "FINDING\|^harness" | grep -v '"kind":"unsupported"' | cut -c1-420 | head -6)
git -C /repo worktree remove --force $sc
