package eng

import (
	"fmt"
	"go/token"
	"os"

	"golang.org/x/tools/go/ssa"
)

// callMerged executes a side-effect free callee on all of its symbolic paths and merges the
// scalar results into ite terms, so that the caller does not fork. It reports ok=false (and leaves
// no trace) when the callee panics, is not scalar-valued, has side effects on older objects, or
// has too many paths; the caller then falls back to an ordinary (forking) call.
func (ip *Interp) callMerged(caller *frame, pos token.Pos, fn *ssa.Function, args []Value, env []Value) (res Value, ok bool) {
	w := ip.W
	for _, a := range args {
		switch a.(type) {
		case *Term, Str:
		default:
			return nil, false
		}
	}
	// save worker path state
	sPrefix, sPos, sTaken, sPC := w.prefix, w.pos, w.taken, w.pc
	sInputs, sVars, sNvar, sModel := len(w.inputs), len(w.vars), w.nvar, w.lastModel
	sLocal := w.local
	sDepth, sCur, sLast, sStack := ip.depth, ip.curFn, ip.lastPos, len(ip.stack)
	jmark := len(ip.journal)
	ip.merging = true
	restore := func() {
		w.prefix, w.pos, w.taken = sPrefix, sPos, sTaken
		w.pc = sPC
		w.inputs, w.vars, w.nvar = w.inputs[:sInputs], w.vars[:sVars], sNvar
		w.lastModel = sModel
		w.local = sLocal
		ip.depth, ip.curFn, ip.lastPos, ip.stack = sDepth, sCur, sLast, ip.stack[:sStack]
		ip.merging = false
	}
	type outcome struct {
		cond *Term
		val  Value
	}
	var outs []outcome
	stack := [][]int16{{}}
	w.local = &stack
	base := len(sPC)
	okAll := true
	for len(stack) > 0 && okAll {
		p := stack[len(stack)-1]
		stack = stack[:len(stack)-1]
		w.prefix, w.pos, w.taken = p, 0, nil
		w.pc = append([]*Term(nil), sPC...)
		w.lastModel = nil
		var r Value
		func() {
			defer func() {
				if e := recover(); e != nil {
					switch e.(type) {
					case *targetPanic, pathEnd:
						okAll = false
					default:
						panic(e)
					}
				}
			}()
			ip.merging = false // allow nested merging inside
			defer func() { ip.merging = true }()
			r = ip.callSSAPlain(caller, pos, fn, args, env)
		}()
		if !okAll {
			break
		}
		if len(ip.journal) != jmark || len(w.inputs) != sInputs {
			okAll = false
			break
		}
		cond := tTrue
		for _, c := range w.pc[base:] {
			cond = ip.TC.And(cond, c)
		}
		outs = append(outs, outcome{cond, r})
		if len(outs) > 64 {
			okAll = false
		}
	}
	ip.undoJournal(jmark)
	restore()
	if !okAll || len(outs) == 0 {
		if ip.P.Verbose {
			fmt.Fprintf(os.Stderr, "merge of %s failed (outs=%d)\n", fn, len(outs))
		}
		return nil, false
	}
	if ip.P.Verbose {
		fmt.Fprintf(os.Stderr, "merged %s: %d paths\n", fn, len(outs))
	}
	merged, mok := ip.mergeVals(outs[len(outs)-1].val, nil, nil)
	if !mok {
		return nil, false
	}
	for i := len(outs) - 2; i >= 0; i-- {
		merged, mok = ip.mergeVals(outs[i].val, merged, outs[i].cond)
		if !mok {
			return nil, false
		}
	}
	return merged, true
}

// mergeVals returns ite(cond, a, b) for scalar values / tuples of scalars (b == nil: just checks a).
func (ip *Interp) mergeVals(a, b Value, cond *Term) (Value, bool) {
	switch x := a.(type) {
	case nil:
		return nil, b == nil
	case *Term:
		if b == nil {
			return x, true
		}
		y, ok := b.(*Term)
		if !ok || y.Sort != x.Sort {
			return nil, false
		}
		return ip.TC.Ite(cond, x, y), true
	case Tuple:
		if b == nil {
			for _, e := range x {
				if _, ok := ip.mergeVals(e, nil, nil); !ok {
					return nil, false
				}
			}
			return x, true
		}
		y, ok := b.(Tuple)
		if !ok || len(y) != len(x) {
			return nil, false
		}
		r := make(Tuple, len(x))
		for i := range x {
			m, ok := ip.mergeVals(x[i], y[i], cond)
			if !ok {
				return nil, false
			}
			r[i] = m
		}
		return r, true
	case Str:
		if b == nil {
			return x, x.Concrete()
		}
		y, ok := b.(Str)
		if !ok || !x.Concrete() || !y.Concrete() || x.S != y.S {
			return nil, false
		}
		return x, true
	}
	return nil, false
}
