package eng

import (
	"fmt"
	"go/types"
	"reflect"
)

// RV models reflect.Value. The zero RV (T == nil) is the invalid Value. RVs are immutable.
type RV struct {
	T    types.Type
	V    Value // direct value when !Ind
	P    Ptr   // location of the value when Ind
	Ind  bool  // value lives at P
	Addr bool  // addressable (CanAddr, Set allowed)
	RO   bool  // obtained through an unexported field
}

// RType models *reflect.rtype (the dynamic type behind reflect.Type).
type RType struct{ T types.Type }

func (ip *Interp) rtypeIface(t types.Type) Value {
	if t == nil {
		return Iface{}
	}
	return Iface{T: ip.P.rtypePtr, V: RType{T: t}}
}

func kindOf(t types.Type) reflect.Kind {
	if t == nil {
		return reflect.Invalid
	}
	switch u := t.Underlying().(type) {
	case *types.Basic:
		switch u.Kind() {
		case types.Bool, types.UntypedBool:
			return reflect.Bool
		case types.Int, types.UntypedInt:
			return reflect.Int
		case types.Int8:
			return reflect.Int8
		case types.Int16:
			return reflect.Int16
		case types.Int32, types.UntypedRune:
			return reflect.Int32
		case types.Int64:
			return reflect.Int64
		case types.Uint:
			return reflect.Uint
		case types.Uint8:
			return reflect.Uint8
		case types.Uint16:
			return reflect.Uint16
		case types.Uint32:
			return reflect.Uint32
		case types.Uint64:
			return reflect.Uint64
		case types.Uintptr:
			return reflect.Uintptr
		case types.Float32:
			return reflect.Float32
		case types.Float64, types.UntypedFloat:
			return reflect.Float64
		case types.Complex64:
			return reflect.Complex64
		case types.Complex128:
			return reflect.Complex128
		case types.String, types.UntypedString:
			return reflect.String
		case types.UnsafePointer:
			return reflect.UnsafePointer
		}
	case *types.Array:
		return reflect.Array
	case *types.Chan:
		return reflect.Chan
	case *types.Signature:
		return reflect.Func
	case *types.Interface:
		return reflect.Interface
	case *types.Map:
		return reflect.Map
	case *types.Pointer:
		return reflect.Pointer
	case *types.Slice:
		return reflect.Slice
	case *types.Struct:
		return reflect.Struct
	}
	return reflect.Invalid
}

func (rv *RV) kind() reflect.Kind { return kindOf(rv.T) }

func (ip *Interp) rvVal(rv *RV) Value {
	if rv.Ind {
		return copyVal(*rv.P.C)
	}
	return rv.V
}

func (ip *Interp) rvPanic(method string, rv *RV) {
	k := rv.kind()
	if k == reflect.Invalid {
		ip.rtPanicV("reflect: call of " + method + " on zero Value")
	}
	ip.rtPanicV("reflect: call of " + method + " on " + k.String() + " Value")
}

// rtPanicV raises a target panic whose value is a *reflect.ValueError-like string.
func (ip *Interp) rtPanicV(msg string) {
	site := ip.curFnName()
	// attribute the panic to the nearest repo function on the stack
	for i := len(ip.stack) - 1; i >= 0; i-- {
		site = ip.stack[i].String()
		break
	}
	panic(&targetPanic{V: Iface{T: types.Typ[types.String], V: MkStr(msg)}, Site: site, Msg: msg})
}

func (ip *Interp) asRV(v Value) *RV {
	rv, ok := v.(*RV)
	if !ok {
		ip.unsupported("expected reflect.Value, got %T", v)
	}
	return rv
}

func (ip *Interp) mustBeExported(method string, rv *RV) {
	if rv.T == nil {
		ip.rtPanicV("reflect: call of " + method + " on zero Value")
	}
	if rv.RO {
		ip.rtPanicV("reflect: " + method + " using value obtained using unexported field")
	}
}

func (ip *Interp) mustBeAssignable(method string, rv *RV) {
	if rv.T == nil {
		ip.rtPanicV("reflect: call of " + method + " on zero Value")
	}
	if rv.RO {
		ip.rtPanicV("reflect: " + method + " using value obtained using unexported field")
	}
	if !rv.Addr {
		ip.rtPanicV("reflect: " + method + " using unaddressable value")
	}
}

// assignTo converts x for storing into a location of type dst (wrapping into interfaces).
func (ip *Interp) assignTo(ctx string, x *RV, dst types.Type) Value {
	v := ip.rvVal(x)
	if types.Identical(x.T, dst) {
		return v
	}
	if _, ok := dst.Underlying().(*types.Interface); ok {
		if _, isI := x.T.Underlying().(*types.Interface); isI {
			return v // interface to interface
		}
		if !ip.implementsT(x.T, dst) {
			ip.rtPanicV(ctx + ": value of type " + typeString(x.T) + " is not assignable to type " + typeString(dst))
		}
		return Iface{T: x.T, V: v}
	}
	if types.AssignableTo(x.T, dst) {
		return v
	}
	ip.rtPanicV(ctx + ": value of type " + typeString(x.T) + " is not assignable to type " + typeString(dst))
	return nil
}

func (ip *Interp) implementsT(t types.Type, dst types.Type) bool {
	i, ok := dst.Underlying().(*types.Interface)
	if !ok {
		return false
	}
	return ip.implements(t, i)
}

func (ip *Interp) rvLen(method string, rv *RV) int {
	v := ip.rvVal(rv)
	switch rv.kind() {
	case reflect.Slice:
		return len(v.(Slice).A)
	case reflect.Array:
		return len(v.(Array))
	case reflect.String:
		return v.(Str).Len()
	case reflect.Map:
		m, _ := v.(*Map)
		if m == nil {
			return 0
		}
		return len(m.Keys)
	case reflect.Pointer:
		if at, ok := rv.T.Underlying().(*types.Pointer).Elem().Underlying().(*types.Array); ok {
			return int(at.Len())
		}
	}
	ip.rvPanic(method, rv)
	return 0
}

func (ip *Interp) rvIndex(rv *RV, iv Value) *RV {
	switch rv.kind() {
	case reflect.Slice:
		s := ip.rvVal(rv).(Slice)
		it := ip.term(iv)
		var i int64
		if it.IsConst() {
			i = it.Int()
			if i < 0 || i >= int64(len(s.A)) {
				ip.rtPanicV("reflect: slice index out of range")
			}
		} else {
			if !ip.condT(ip.TC.ULt(it, Const(SBV64, uint64(len(s.A))))) {
				ip.rtPanicV("reflect: slice index out of range")
			}
			i = ip.W.ConcretizeRange(it, 0, int64(len(s.A)-1))
		}
		et := rv.T.Underlying().(*types.Slice).Elem()
		return &RV{T: et, P: Ptr{C: &s.A[i], O: s.O}, Ind: true, Addr: true, RO: rv.RO}
	case reflect.Array:
		et := rv.T.Underlying().(*types.Array).Elem()
		i := ip.concInt(iv, 0, 64)
		if rv.Ind {
			a := (*rv.P.C).(Array)
			if i < 0 || i >= int64(len(a)) {
				ip.rtPanicV("reflect: array index out of range")
			}
			return &RV{T: et, P: Ptr{C: &a[i], O: rv.P.O}, Ind: true, Addr: rv.Addr, RO: rv.RO}
		}
		a := rv.V.(Array)
		if i < 0 || i >= int64(len(a)) {
			ip.rtPanicV("reflect: array index out of range")
		}
		return &RV{T: et, V: copyVal(a[i]), RO: rv.RO}
	case reflect.String:
		s := ip.rvVal(rv).(Str)
		i := ip.concInt(iv, 0, int64(s.Len()))
		if i < 0 || i >= int64(s.Len()) {
			ip.rtPanicV("reflect: string index out of range")
		}
		return &RV{T: types.Typ[types.Uint8], V: s.At(int(i)), RO: rv.RO}
	}
	ip.rvPanic("reflect.Value.Index", rv)
	return nil
}

func (ip *Interp) rvElem(rv *RV) *RV {
	switch rv.kind() {
	case reflect.Interface:
		iv, _ := ip.rvVal(rv).(Iface)
		if iv.T == nil {
			return &RV{}
		}
		return &RV{T: iv.T, V: iv.V, RO: rv.RO}
	case reflect.Pointer:
		p := ip.toPtr(ip.rvVal(rv))
		if p.C == nil {
			return &RV{}
		}
		return &RV{T: rv.T.Underlying().(*types.Pointer).Elem(), P: p, Ind: true, Addr: true, RO: rv.RO}
	}
	ip.rvPanic("reflect.Value.Elem", rv)
	return nil
}

func (ip *Interp) rvInterface(method string, rv *RV) Value {
	if rv.T == nil {
		ip.rtPanicV("reflect: call of " + method + " on zero Value")
	}
	if rv.RO {
		ip.rtPanicV("reflect." + "Value.Interface: cannot return value obtained from unexported field or method")
	}
	v := ip.rvVal(rv)
	if rv.kind() == reflect.Interface {
		if iv, ok := v.(Iface); ok {
			return iv
		}
	}
	return Iface{T: rv.T, V: v}
}

func (ip *Interp) rvIsNil(rv *RV) *Term {
	v := ip.rvVal(rv)
	switch rv.kind() {
	case reflect.Chan:
		return tTrue
	case reflect.Func:
		switch f := v.(type) {
		case *Closure:
			return Bool(f == nil)
		default:
			return Bool(f == nil)
		}
	case reflect.Map:
		m, _ := v.(*Map)
		return Bool(m == nil)
	case reflect.Pointer, reflect.UnsafePointer:
		return Bool(ip.toPtr(v).C == nil)
	case reflect.Interface:
		iv, _ := v.(Iface)
		return Bool(iv.T == nil)
	case reflect.Slice:
		return Bool(v.(Slice).A == nil)
	}
	ip.rvPanic("reflect.Value.IsNil", rv)
	return nil
}

func (ip *Interp) rvField(rv *RV, i int) *RV {
	if rv.kind() != reflect.Struct {
		ip.rvPanic("reflect.Value.Field", rv)
	}
	if isReflectValue(rv.T) {
		// fields of reflect.Value itself are unexported
		if i < 0 || i >= 3 {
			ip.rtPanicV("reflect: Field index out of range")
		}
		return &RV{T: types.Typ[types.Uintptr], V: Const(SBV64, 0), RO: true}
	}
	st := rv.T.Underlying().(*types.Struct)
	if i < 0 || i >= st.NumFields() {
		ip.rtPanicV("reflect: Field index out of range")
	}
	f := st.Field(i)
	ro := rv.RO || !f.Exported()
	if rv.Ind {
		s := (*rv.P.C).(Struct)
		return &RV{T: f.Type(), P: Ptr{C: &s[i], O: rv.P.O}, Ind: true, Addr: rv.Addr, RO: ro}
	}
	s, ok := rv.V.(Struct)
	if !ok {
		ip.unsupported("reflect Field on %T", rv.V)
	}
	return &RV{T: f.Type(), V: copyVal(s[i]), RO: ro}
}

func (ip *Interp) rvNumField(rv *RV) int {
	if rv.kind() != reflect.Struct {
		ip.rvPanic("reflect.Value.NumField", rv)
	}
	if isReflectValue(rv.T) {
		return 3
	}
	return rv.T.Underlying().(*types.Struct).NumFields()
}

func (ip *Interp) rvStructEq(a, b *RV) *Term {
	if a.T == nil || b.T == nil {
		return Bool(a.T == nil && b.T == nil)
	}
	if a == b {
		return tTrue
	}
	if !types.Identical(a.T, b.T) || a.Ind != b.Ind || a.Addr != b.Addr || a.RO != b.RO {
		return tFalse
	}
	if a.Ind {
		return Bool(a.P.C == b.P.C)
	}
	switch a.kind() {
	case reflect.Pointer, reflect.UnsafePointer, reflect.Map, reflect.Func, reflect.Chan:
		return ip.equals(nil, a.V, b.V)
	}
	// boxed copies: identical only if they are the same box; not tracked -> different
	return tFalse
}

func (ip *Interp) rvSlice(vals []*RV) Value {
	a := make([]Value, len(vals))
	for i, v := range vals {
		a[i] = v
	}
	return Slice{A: a, O: ip.newObj(ip.P.reflectValueT, "reflect")}
}

func (ip *Interp) rtypeOf(v Value) types.Type {
	iv, ok := v.(Iface)
	if !ok || iv.T == nil {
		ip.rtPanicV("reflect: nil Type")
	}
	rt, ok := iv.V.(RType)
	if !ok {
		ip.unsupported("reflect.Type backed by %T", iv.V)
	}
	return rt.T
}

func (ip *Interp) deepEqual(t types.Type, a, b Value, depth int) *Term {
	tc := ip.TC
	if depth > 50 {
		ip.unsupported("DeepEqual recursion")
	}
	switch x := a.(type) {
	case Iface:
		y, ok := b.(Iface)
		if !ok {
			return tFalse
		}
		if x.T == nil || y.T == nil {
			return Bool(x.T == nil && y.T == nil)
		}
		if !types.Identical(x.T, y.T) {
			return tFalse
		}
		return ip.deepEqual(x.T, x.V, y.V, depth+1)
	case *Term:
		y := b.(*Term)
		return tc.Eq(x, y)
	case Str:
		return ip.strEq(x, b.(Str))
	case Slice:
		y := b.(Slice)
		if (x.A == nil) != (y.A == nil) {
			return tFalse
		}
		if len(x.A) != len(y.A) {
			return tFalse
		}
		if len(x.A) > 0 && &x.A[0] == &y.A[0] {
			return tTrue
		}
		var et types.Type
		if t != nil {
			if st, ok := t.Underlying().(*types.Slice); ok {
				et = st.Elem()
			}
		}
		r := tTrue
		for i := range x.A {
			r = tc.And(r, ip.deepEqual(et, x.A[i], y.A[i], depth+1))
			if r == tFalse {
				return r
			}
		}
		return r
	case Array:
		y := b.(Array)
		r := tTrue
		for i := range x {
			r = tc.And(r, ip.deepEqual(nil, x[i], y[i], depth+1))
		}
		return r
	case *Map:
		y, _ := b.(*Map)
		if (x == nil) != (y == nil) {
			return tFalse
		}
		if x == nil {
			return tTrue
		}
		if len(x.Keys) != len(y.Keys) {
			return tFalse
		}
		if x == y {
			return tTrue
		}
		r := tTrue
		for i, k := range x.Keys {
			v2, ok := ip.mapGet(y, k)
			if !ok {
				return tFalse
			}
			r = tc.And(r, ip.deepEqual(x.VT, x.Vals[i], v2, depth+1))
			if r == tFalse {
				return r
			}
		}
		return r
	case Struct:
		y := b.(Struct)
		r := tTrue
		var st *types.Struct
		if t != nil {
			st, _ = t.Underlying().(*types.Struct)
		}
		for i := range x {
			var ft types.Type
			if st != nil {
				ft = st.Field(i).Type()
			}
			r = tc.And(r, ip.deepEqual(ft, x[i], y[i], depth+1))
		}
		return r
	case Ptr:
		y := ip.toPtr(b)
		if x.C == nil || y.C == nil {
			return Bool(x.C == nil && y.C == nil)
		}
		if x.C == y.C {
			return tTrue
		}
		var et types.Type
		if t != nil {
			if pt, ok := t.Underlying().(*types.Pointer); ok {
				et = pt.Elem()
			}
		}
		return ip.deepEqual(et, *x.C, *y.C, depth+1)
	case *Closure:
		y, ok := b.(*Closure)
		return Bool(x == nil && ok && y == nil)
	case *RV:
		// reflect.Value is a struct: DeepEqual compares its fields deeply
		return ip.rvStructEq(x, b.(*RV))
	}
	return ip.equals(t, a, b)
}

func registerReflect(reg func(string, func(*Interp, []Value) Value)) {
	kindTerm := func(k reflect.Kind) *Term { return Const(SBV64, uint64(k)) }

	valueOf := func(ip *Interp, a []Value) Value {
		iv, ok := a[0].(Iface)
		if !ok || iv.T == nil {
			return &RV{}
		}
		return &RV{T: iv.T, V: iv.V}
	}
	reg("reflect.ValueOf", valueOf)
	reg("internal/reflectlite.ValueOf", valueOf)
	reg("reflect.TypeOf", func(ip *Interp, a []Value) Value {
		iv, _ := a[0].(Iface)
		return ip.rtypeIface(iv.T)
	})
	reg("(reflect.Value).IsValid", func(ip *Interp, a []Value) Value { return Bool(ip.asRV(a[0]).T != nil) })
	reg("(reflect.Value).Kind", func(ip *Interp, a []Value) Value { return kindTerm(ip.asRV(a[0]).kind()) })
	reg("(reflect.Value).Type", func(ip *Interp, a []Value) Value {
		rv := ip.asRV(a[0])
		if rv.T == nil {
			ip.rtPanicV("reflect: call of reflect.Value.Type on zero Value")
		}
		return ip.rtypeIface(rv.T)
	})
	lenFn := func(ip *Interp, a []Value) Value {
		return i64(int64(ip.rvLen("reflect.Value.Len", ip.asRV(a[0]))))
	}
	reg("(reflect.Value).Len", lenFn)
	reg("(internal/reflectlite.Value).Len", lenFn)
	reg("(reflect.Value).Index", func(ip *Interp, a []Value) Value { return ip.rvIndex(ip.asRV(a[0]), a[1]) })
	reg("(reflect.Value).Elem", func(ip *Interp, a []Value) Value { return ip.rvElem(ip.asRV(a[0])) })
	reg("(reflect.Value).Interface", func(ip *Interp, a []Value) Value {
		return ip.rvInterface("reflect.Value.Interface", ip.asRV(a[0]))
	})
	reg("(reflect.Value).CanInterface", func(ip *Interp, a []Value) Value {
		rv := ip.asRV(a[0])
		if rv.T == nil {
			ip.rtPanicV("reflect: call of reflect.Value.CanInterface on zero Value")
		}
		return Bool(!rv.RO)
	})
	reg("(reflect.Value).CanAddr", func(ip *Interp, a []Value) Value { return Bool(ip.asRV(a[0]).Addr) })
	reg("(reflect.Value).CanSet", func(ip *Interp, a []Value) Value {
		rv := ip.asRV(a[0])
		return Bool(rv.Addr && !rv.RO)
	})
	reg("(reflect.Value).Addr", func(ip *Interp, a []Value) Value {
		rv := ip.asRV(a[0])
		if !rv.Addr {
			ip.rtPanicV("reflect.Value.Addr of unaddressable value")
		}
		return &RV{T: types.NewPointer(rv.T), V: rv.P, RO: rv.RO}
	})
	reg("(reflect.Value).IsNil", func(ip *Interp, a []Value) Value { return ip.rvIsNil(ip.asRV(a[0])) })
	reg("(reflect.Value).Cap", func(ip *Interp, a []Value) Value {
		rv := ip.asRV(a[0])
		switch rv.kind() {
		case reflect.Slice:
			return i64(int64(cap(ip.rvVal(rv).(Slice).A)))
		case reflect.Array:
			return i64(int64(ip.rvLen("reflect.Value.Cap", rv)))
		}
		ip.rvPanic("reflect.Value.Cap", rv)
		return nil
	})
	reg("(reflect.Value).Slice", func(ip *Interp, a []Value) Value {
		rv := ip.asRV(a[0])
		i, j := ip.concInt(a[1], 0, 64), ip.concInt(a[2], 0, 64)
		switch rv.kind() {
		case reflect.Slice:
			sl := ip.rvVal(rv).(Slice)
			if i < 0 || j < i || j > int64(cap(sl.A)) {
				ip.rtPanicV("reflect.Value.Slice: slice index out of bounds")
			}
			if sl.A == nil {
				return &RV{T: rv.T, V: Slice{}}
			}
			return &RV{T: rv.T, V: Slice{A: sl.A[i:j], O: sl.O}, RO: rv.RO}
		case reflect.String:
			st := ip.rvVal(rv).(Str)
			if i < 0 || j < i || j > int64(st.Len()) {
				ip.rtPanicV("reflect.Value.Slice: string slice index out of bounds")
			}
			return &RV{T: rv.T, V: st.Slice(int(i), int(j)), RO: rv.RO}
		}
		ip.rvPanic("reflect.Value.Slice", rv)
		return nil
	})
	reg("(reflect.Value).IsZero", func(ip *Interp, a []Value) Value {
		rv := ip.asRV(a[0])
		if rv.T == nil {
			ip.rtPanicV("reflect: call of reflect.Value.IsZero on zero Value")
		}
		return ip.isZeroValue(rv.T, ip.rvVal(rv))
	})
	reg("(reflect.Value).Pointer", func(ip *Interp, a []Value) Value {
		rv := ip.asRV(a[0])
		switch v := ip.rvVal(rv).(type) {
		case *Map:
			if v == nil {
				return Const(SBV64, 0)
			}
			return Const(SBV64, uint64(0x10000+v.O.ID*16))
		case Slice:
			if v.A == nil {
				return Const(SBV64, 0)
			}
			return Const(SBV64, uint64(0x10000+v.O.ID*16))
		case Ptr:
			if v.C == nil {
				return Const(SBV64, 0)
			}
			return Const(SBV64, uint64(0x10000+v.O.ID*16))
		}
		ip.unsupported("reflect.Value.Pointer on %v", rv.T)
		return nil
	})
	reg("(reflect.Value).MapIndex", func(ip *Interp, a []Value) Value {
		rv, k := ip.asRV(a[0]), ip.asRV(a[1])
		if rv.kind() != reflect.Map {
			ip.rvPanic("reflect.Value.MapIndex", rv)
		}
		mt := rv.T.Underlying().(*types.Map)
		if k.T == nil {
			ip.rtPanicV("reflect: call of reflect.Value.MapIndex on zero Value")
		}
		key := ip.assignTo("reflect.Value.MapIndex", k, mt.Key())
		m, _ := ip.rvVal(rv).(*Map)
		v, ok := ip.mapGet(m, key)
		if !ok {
			return &RV{}
		}
		return &RV{T: mt.Elem(), V: copyVal(v), RO: rv.RO || k.RO}
	})
	reg("(reflect.Value).MapKeys", func(ip *Interp, a []Value) Value {
		rv := ip.asRV(a[0])
		if rv.kind() != reflect.Map {
			ip.rvPanic("reflect.Value.MapKeys", rv)
		}
		mt := rv.T.Underlying().(*types.Map)
		m, _ := ip.rvVal(rv).(*Map)
		var out []*RV
		if m != nil {
			ord := ip.W.mapOrder(len(m.Keys))
			for _, i := range ord {
				out = append(out, &RV{T: mt.Key(), V: copyVal(m.Keys[i]), RO: rv.RO})
			}
		}
		return ip.rvSlice(out)
	})
	reg("(reflect.Value).SetMapIndex", func(ip *Interp, a []Value) Value {
		rv, k, e := ip.asRV(a[0]), ip.asRV(a[1]), ip.asRV(a[2])
		if rv.kind() != reflect.Map {
			ip.rvPanic("reflect.Value.SetMapIndex", rv)
		}
		ip.mustBeExported("reflect.Value.SetMapIndex", rv)
		ip.mustBeExported("reflect.Value.SetMapIndex", k)
		mt := rv.T.Underlying().(*types.Map)
		key := ip.assignTo("reflect.Value.SetMapIndex", k, mt.Key())
		m, _ := ip.rvVal(rv).(*Map)
		if e.T == nil {
			ip.mapDelete(m, key)
			return nil
		}
		ip.mustBeExported("reflect.Value.SetMapIndex", e)
		val := ip.assignTo("reflect.Value.SetMapIndex", e, mt.Elem())
		ip.mapUpdate(m, key, val)
		return nil
	})
	reg("(reflect.Value).Set", func(ip *Interp, a []Value) Value {
		rv, x := ip.asRV(a[0]), ip.asRV(a[1])
		ip.mustBeAssignable("reflect.Value.Set", rv)
		ip.mustBeExported("reflect.Value.Set", x)
		val := ip.assignTo("reflect.Set", x, rv.T)
		ip.store(rv.T, rv.P, val)
		return nil
	})
	reg("(reflect.Value).Field", func(ip *Interp, a []Value) Value {
		return ip.rvField(ip.asRV(a[0]), int(ip.concInt(a[1], 0, 64)))
	})
	reg("(reflect.Value).NumField", func(ip *Interp, a []Value) Value {
		return i64(int64(ip.rvNumField(ip.asRV(a[0]))))
	})
	reg("(reflect.Value).FieldByName", func(ip *Interp, a []Value) Value {
		rv := ip.asRV(a[0])
		if rv.kind() != reflect.Struct {
			ip.rvPanic("reflect.Value.FieldByName", rv)
		}
		name, ok := goStr(a[1])
		if !ok {
			ip.unsupported("FieldByName with symbolic name")
		}
		if isReflectValue(rv.T) {
			return &RV{}
		}
		st := rv.T.Underlying().(*types.Struct)
		for i := 0; i < st.NumFields(); i++ {
			if st.Field(i).Name() == name {
				return ip.rvField(rv, i)
			}
		}
		// promoted fields through embedded structs (one level)
		for i := 0; i < st.NumFields(); i++ {
			f := st.Field(i)
			if f.Embedded() {
				if est, ok := f.Type().Underlying().(*types.Struct); ok {
					for j := 0; j < est.NumFields(); j++ {
						if est.Field(j).Name() == name {
							return ip.rvField(ip.rvField(rv, i), j)
						}
					}
				}
			}
		}
		return &RV{}
	})
	reg("(reflect.Value).FieldByIndex", func(ip *Interp, a []Value) Value {
		rv := ip.asRV(a[0])
		idx := a[1].(Slice)
		for _, iv := range idx.A {
			if rv.kind() == reflect.Pointer {
				rv = ip.rvElem(rv)
			}
			rv = ip.rvField(rv, int(ip.term(iv).Int()))
		}
		return rv
	})
	reg("(reflect.Value).Bool", func(ip *Interp, a []Value) Value {
		rv := ip.asRV(a[0])
		if rv.kind() != reflect.Bool {
			ip.rvPanic("reflect.Value.Bool", rv)
		}
		return ip.rvVal(rv)
	})
	reg("(reflect.Value).Float", func(ip *Interp, a []Value) Value {
		rv := ip.asRV(a[0])
		switch rv.kind() {
		case reflect.Float64:
			return ip.rvVal(rv)
		case reflect.Float32:
			return ip.TC.FToFP(ip.term(ip.rvVal(rv)), SFP64)
		}
		ip.rvPanic("reflect.Value.Float", rv)
		return nil
	})
	reg("(reflect.Value).Int", func(ip *Interp, a []Value) Value {
		rv := ip.asRV(a[0])
		switch rv.kind() {
		case reflect.Int, reflect.Int8, reflect.Int16, reflect.Int32, reflect.Int64:
			return ip.TC.Resize(ip.term(ip.rvVal(rv)), SBV64, true)
		}
		ip.rvPanic("reflect.Value.Int", rv)
		return nil
	})
	reg("(reflect.Value).Uint", func(ip *Interp, a []Value) Value {
		rv := ip.asRV(a[0])
		switch rv.kind() {
		case reflect.Uint, reflect.Uint8, reflect.Uint16, reflect.Uint32, reflect.Uint64, reflect.Uintptr:
			return ip.TC.Resize(ip.term(ip.rvVal(rv)), SBV64, false)
		}
		ip.rvPanic("reflect.Value.Uint", rv)
		return nil
	})
	reg("(reflect.Value).String", func(ip *Interp, a []Value) Value {
		rv := ip.asRV(a[0])
		if rv.T == nil {
			return MkStr("<invalid Value>")
		}
		if rv.kind() == reflect.String {
			return ip.rvVal(rv)
		}
		return MkStr("<" + typeString(rv.T) + " Value>")
	})
	reg("(reflect.Value).Convert", func(ip *Interp, a []Value) Value {
		rv := ip.asRV(a[0])
		dst := ip.rtypeOf(a[1])
		if rv.T == nil {
			ip.rtPanicV("reflect: call of reflect.Value.Convert on zero Value")
		}
		if rv.RO {
			ip.rtPanicV("reflect: reflect.Value.Convert using value obtained using unexported field")
		}
		if !types.ConvertibleTo(rv.T, dst) {
			ip.rtPanicV("reflect.Value.Convert: value of type " + typeString(rv.T) + " cannot be converted to type " + typeString(dst))
		}
		v := ip.rvVal(rv)
		if _, ok := dst.Underlying().(*types.Interface); ok {
			if _, isI := rv.T.Underlying().(*types.Interface); isI {
				return &RV{T: dst, V: v}
			}
			return &RV{T: dst, V: Iface{T: rv.T, V: v}}
		}
		if types.Identical(rv.T.Underlying(), dst.Underlying()) {
			return &RV{T: dst, V: v}
		}
		return &RV{T: dst, V: ip.conv(dst, rv.T, v)}
	})
	reg("(reflect.Value).Call", func(ip *Interp, a []Value) Value {
		rv := ip.asRV(a[0])
		if rv.kind() != reflect.Func {
			ip.rvPanic("reflect.Value.Call", rv)
		}
		ip.mustBeExported("reflect.Value.Call", rv)
		sig := rv.T.Underlying().(*types.Signature)
		in := a[1].(Slice).A
		fn := ip.rvVal(rv)
		n := sig.Params().Len()
		if sig.Variadic() {
			if len(in) < n-1 {
				ip.rtPanicV("reflect: Call with too few input arguments")
			}
		} else if len(in) != n {
			if len(in) < n {
				ip.rtPanicV("reflect: Call with too few input arguments")
			}
			ip.rtPanicV("reflect: Call with too many input arguments")
		}
		var args []Value
		fixed := n
		if sig.Variadic() {
			fixed = n - 1
		}
		for i := 0; i < fixed; i++ {
			x := ip.asRV(in[i])
			if x.T == nil {
				ip.rtPanicV("reflect: Call using zero Value argument")
			}
			ip.mustBeExported("reflect.Value.Call", x)
			args = append(args, ip.assignTo("reflect: Call", x, sig.Params().At(i).Type()))
		}
		if sig.Variadic() {
			st := sig.Params().At(n - 1).Type().(*types.Slice)
			var rest []Value
			for _, xv := range in[fixed:] {
				x := ip.asRV(xv)
				if x.T == nil {
					ip.rtPanicV("reflect: Call using zero Value argument")
				}
				rest = append(rest, ip.assignTo("reflect: Call", x, st.Elem()))
			}
			if rest == nil {
				args = append(args, Slice{})
			} else {
				args = append(args, Slice{A: rest, O: ip.newObj(st.Elem(), "reflect.Call")})
			}
		}
		res := ip.CallFunc(fn, args...)
		var out []*RV
		switch sig.Results().Len() {
		case 0:
		case 1:
			out = append(out, &RV{T: sig.Results().At(0).Type(), V: res})
		default:
			for i, r := range res.(Tuple) {
				out = append(out, &RV{T: sig.Results().At(i).Type(), V: r})
			}
		}
		return ip.rvSlice(out)
	})

	// constructors
	reg("reflect.MakeSlice", func(ip *Interp, a []Value) Value {
		t := ip.rtypeOf(a[0])
		st, ok := t.Underlying().(*types.Slice)
		if !ok {
			ip.rtPanicV("reflect.MakeSlice of non-slice type")
		}
		n := ip.concInt(a[1], 0, 64)
		c := ip.concInt(a[2], 0, 64)
		if n < 0 {
			ip.rtPanicV("reflect.MakeSlice: negative len")
		}
		if c < 0 {
			ip.rtPanicV("reflect.MakeSlice: negative cap")
		}
		if n > c {
			ip.rtPanicV("reflect.MakeSlice: len > cap")
		}
		if c > 1<<20 {
			panic(pathEnd{Kind: "unwound", Msg: "huge reflect.MakeSlice"})
		}
		arr := make([]Value, c)
		for i := range arr {
			arr[i] = zero(st.Elem())
		}
		return &RV{T: t, V: Slice{A: arr[:n], O: ip.newObj(st.Elem(), "reflect.MakeSlice")}}
	})
	appendRV := func(ip *Interp, s *RV, xs []*RV) Value {
		if s.kind() != reflect.Slice {
			ip.rvPanic("reflect.Append", s)
		}
		ip.mustBeExported("reflect.Append", s)
		st := s.T.Underlying().(*types.Slice)
		old := ip.rvVal(s).(Slice)
		n := len(old.A)
		var vals []Value
		for _, x := range xs {
			ip.mustBeExported("reflect.Value.Set", x)
			vals = append(vals, ip.assignTo("reflect.Set", x, st.Elem()))
		}
		if len(vals) == 0 {
			return &RV{T: s.T, V: old}
		}
		if n+len(vals) <= cap(old.A) {
			// like the real reflect.Append: spare capacity is used in place, i.e. the new
			// elements are written into the backing array shared with the original slice
			ip.checkWrite(old.O, "reflect.Append in place")
			a := old.A[:n+len(vals)]
			for i, v := range vals {
				ip.setCell(&a[n+i], old.O, copyVal(v))
			}
			return &RV{T: s.T, V: Slice{A: a, O: old.O}}
		}
		newCap := n + len(vals)
		if c := 2 * cap(old.A); c > newCap && n < 256 {
			newCap = c
		}
		na := make([]Value, n+len(vals), newCap)
		for i, v := range old.A {
			na[i] = copyVal(v)
		}
		for i, v := range vals {
			na[n+i] = copyVal(v)
		}
		full := na[:newCap]
		for i := n + len(vals); i < newCap; i++ {
			full[i] = zero(st.Elem())
		}
		return &RV{T: s.T, V: Slice{A: na, O: ip.newObj(st.Elem(), "reflect.Append")}}
	}
	reg("reflect.Append", func(ip *Interp, a []Value) Value {
		var xs []*RV
		for _, x := range sliceArgs(a[1]) {
			xs = append(xs, ip.asRV(x))
		}
		return appendRV(ip, ip.asRV(a[0]), xs)
	})
	reg("reflect.AppendSlice", func(ip *Interp, a []Value) Value {
		s, t := ip.asRV(a[0]), ip.asRV(a[1])
		if s.kind() != reflect.Slice {
			ip.rvPanic("reflect.AppendSlice", s)
		}
		if t.kind() != reflect.Slice {
			ip.rvPanic("reflect.AppendSlice", t)
		}
		if !types.Identical(s.T.Underlying().(*types.Slice).Elem(), t.T.Underlying().(*types.Slice).Elem()) {
			ip.rtPanicV("reflect.AppendSlice: " + typeString(s.T) + " != " + typeString(t.T))
		}
		var xs []*RV
		n := ip.rvLen("reflect.Value.Len", t)
		for i := 0; i < n; i++ {
			xs = append(xs, ip.rvIndex(t, i64(int64(i))))
		}
		return appendRV(ip, s, xs)
	})
	reg("reflect.Zero", func(ip *Interp, a []Value) Value {
		t := ip.rtypeOf(a[0])
		return &RV{T: t, V: zero(t)}
	})
	reg("reflect.New", func(ip *Interp, a []Value) Value {
		t := ip.rtypeOf(a[0])
		c := new(Value)
		*c = zero(t)
		return &RV{T: types.NewPointer(t), V: Ptr{C: c, O: ip.newObj(t, "reflect.New")}}
	})
	reg("reflect.SliceOf", func(ip *Interp, a []Value) Value { return ip.rtypeIface(types.NewSlice(ip.rtypeOf(a[0]))) })
	reg("reflect.PtrTo", func(ip *Interp, a []Value) Value { return ip.rtypeIface(types.NewPointer(ip.rtypeOf(a[0]))) })
	reg("reflect.PointerTo", func(ip *Interp, a []Value) Value { return ip.rtypeIface(types.NewPointer(ip.rtypeOf(a[0]))) })
	reg("reflect.MapOf", func(ip *Interp, a []Value) Value {
		return ip.rtypeIface(types.NewMap(ip.rtypeOf(a[0]), ip.rtypeOf(a[1])))
	})
	reg("reflect.DeepEqual", func(ip *Interp, a []Value) Value {
		x, _ := a[0].(Iface)
		y, _ := a[1].(Iface)
		if x.T == nil || y.T == nil {
			return Bool(x.T == nil && y.T == nil)
		}
		if !types.Identical(x.T, y.T) {
			return tFalse
		}
		return ip.deepEqual(x.T, x.V, y.V, 0)
	})
	reg("(reflect.Kind).String", func(ip *Interp, a []Value) Value {
		k := ip.term(a[0])
		if !k.IsConst() {
			return MkStr("<kind>")
		}
		return MkStr(reflect.Kind(k.C).String())
	})
	reg("internal/reflectlite.Swapper", func(ip *Interp, a []Value) Value {
		iv := a[0].(Iface)
		s, ok := iv.V.(Slice)
		if !ok {
			ip.rtPanicV("reflect: call of Swapper on non-slice")
		}
		return &Native{Name: "swapper", Fn: func(ip *Interp, args []Value) Value {
			i, j := ip.concInt(args[0], 0, int64(len(s.A))), ip.concInt(args[1], 0, int64(len(s.A)))
			if i < 0 || j < 0 || i >= int64(len(s.A)) || j >= int64(len(s.A)) {
				ip.rtPanic("index out of range")
			}
			ip.checkWrite(s.O, "swap")
			vi, vj := copyVal(s.A[i]), copyVal(s.A[j])
			ip.setCell(&s.A[i], s.O, vj)
			ip.setCell(&s.A[j], s.O, vi)
			return nil
		}}
	})

	// ---- reflect.Type methods (dynamic type *reflect.rtype) ----
	rt := func(ip *Interp, v Value) types.Type {
		r, ok := v.(RType)
		if !ok {
			ip.unsupported("rtype receiver %T", v)
		}
		return r.T
	}
	reg("(*reflect.rtype).Kind", func(ip *Interp, a []Value) Value { return kindTerm(kindOf(rt(ip, a[0]))) })
	reg("(*reflect.rtype).String", func(ip *Interp, a []Value) Value { return MkStr(typeString(rt(ip, a[0]))) })
	reg("(*reflect.rtype).Name", func(ip *Interp, a []Value) Value {
		if n, ok := types.Unalias(rt(ip, a[0])).(*types.Named); ok {
			return MkStr(n.Obj().Name())
		}
		if b, ok := rt(ip, a[0]).(*types.Basic); ok {
			return MkStr(b.Name())
		}
		return MkStr("")
	})
	reg("(*reflect.rtype).Elem", func(ip *Interp, a []Value) Value {
		switch u := rt(ip, a[0]).Underlying().(type) {
		case *types.Pointer:
			return ip.rtypeIface(u.Elem())
		case *types.Slice:
			return ip.rtypeIface(u.Elem())
		case *types.Array:
			return ip.rtypeIface(u.Elem())
		case *types.Map:
			return ip.rtypeIface(u.Elem())
		case *types.Chan:
			return ip.rtypeIface(u.Elem())
		}
		ip.rtPanicV("reflect: Elem of invalid type " + typeString(rt(ip, a[0])))
		return nil
	})
	reg("(*reflect.rtype).Key", func(ip *Interp, a []Value) Value {
		if u, ok := rt(ip, a[0]).Underlying().(*types.Map); ok {
			return ip.rtypeIface(u.Key())
		}
		ip.rtPanicV("reflect: Key of non-map type")
		return nil
	})
	sigOf := func(ip *Interp, v Value, m string) *types.Signature {
		s, ok := rt(ip, v).Underlying().(*types.Signature)
		if !ok {
			ip.rtPanicV("reflect: " + m + " of non-func type " + typeString(rt(ip, v)))
		}
		return s
	}
	reg("(*reflect.rtype).NumIn", func(ip *Interp, a []Value) Value { return i64(int64(sigOf(ip, a[0], "NumIn").Params().Len())) })
	reg("(*reflect.rtype).NumOut", func(ip *Interp, a []Value) Value {
		return i64(int64(sigOf(ip, a[0], "NumOut").Results().Len()))
	})
	reg("(*reflect.rtype).In", func(ip *Interp, a []Value) Value {
		s := sigOf(ip, a[0], "In")
		i := int(ip.concInt(a[1], 0, 64))
		if i < 0 || i >= s.Params().Len() {
			ip.rtPanic("index out of range")
		}
		return ip.rtypeIface(s.Params().At(i).Type())
	})
	reg("(*reflect.rtype).Out", func(ip *Interp, a []Value) Value {
		s := sigOf(ip, a[0], "Out")
		i := int(ip.concInt(a[1], 0, 64))
		if i < 0 || i >= s.Results().Len() {
			ip.rtPanic("index out of range")
		}
		return ip.rtypeIface(s.Results().At(i).Type())
	})
	reg("(*reflect.rtype).IsVariadic", func(ip *Interp, a []Value) Value { return Bool(sigOf(ip, a[0], "IsVariadic").Variadic()) })
	reg("(*reflect.rtype).NumField", func(ip *Interp, a []Value) Value {
		st, ok := rt(ip, a[0]).Underlying().(*types.Struct)
		if !ok {
			ip.rtPanicV("reflect: NumField of non-struct type " + typeString(rt(ip, a[0])))
		}
		return i64(int64(st.NumFields()))
	})
	reg("(*reflect.rtype).Field", func(ip *Interp, a []Value) Value {
		st, ok := rt(ip, a[0]).Underlying().(*types.Struct)
		if !ok {
			ip.rtPanicV("reflect: Field of non-struct type " + typeString(rt(ip, a[0])))
		}
		i := int(ip.concInt(a[1], 0, 64))
		if i < 0 || i >= st.NumFields() {
			ip.rtPanicV("reflect: Field index out of bounds")
		}
		f := st.Field(i)
		pkgPath := ""
		if !f.Exported() && f.Pkg() != nil {
			pkgPath = f.Pkg().Path()
		}
		// reflect.StructField{Name, PkgPath, Type, Tag, Offset, Index, Anonymous}
		return Struct{MkStr(f.Name()), MkStr(pkgPath), ip.rtypeIface(f.Type()), MkStr(st.Tag(i)), Const(SBV64, 0),
			Slice{A: []Value{i64(int64(i))}, O: ip.newObj(types.Typ[types.Int], "StructField")}, Bool(f.Embedded())}
	})
	reg("(*reflect.rtype).Implements", func(ip *Interp, a []Value) Value {
		u := ip.rtypeOf(a[1])
		iface, ok := u.Underlying().(*types.Interface)
		if !ok {
			ip.rtPanicV("reflect: non-interface type passed to Type.Implements")
		}
		return Bool(ip.implements(rt(ip, a[0]), iface))
	})
	reg("(*reflect.rtype).AssignableTo", func(ip *Interp, a []Value) Value {
		return Bool(types.AssignableTo(rt(ip, a[0]), ip.rtypeOf(a[1])))
	})
	reg("(*reflect.rtype).ConvertibleTo", func(ip *Interp, a []Value) Value {
		return Bool(types.ConvertibleTo(rt(ip, a[0]), ip.rtypeOf(a[1])))
	})
	reg("(*reflect.rtype).Comparable", func(ip *Interp, a []Value) Value { return Bool(types.Comparable(rt(ip, a[0]))) })
	reg("(*reflect.rtype).PkgPath", func(ip *Interp, a []Value) Value {
		if n, ok := types.Unalias(rt(ip, a[0])).(*types.Named); ok && n.Obj().Pkg() != nil {
			return MkStr(n.Obj().Pkg().Path())
		}
		return MkStr("")
	})
	_ = fmt.Sprint
}

// isZeroValue returns a Bool term: v (of type t) is the zero value of its type.
func (ip *Interp) isZeroValue(t types.Type, v Value) *Term {
	tc := ip.TC
	switch x := v.(type) {
	case *Term:
		if x.Sort == SBool {
			return tc.Not(x)
		}
		if x.Sort.IsFP() {
			// reflect: math.Float64bits(x) == 0 (so -0 is not zero)
			if x.IsConst() {
				return Bool(x.C == 0)
			}
			return tc.And(tc.FEq(x, fconst(x.Sort, 0)), tc.Not(tc.FLt(tc.FDiv(fconst(x.Sort, 1), x), fconst(x.Sort, 0))))
		}
		return tc.Eq(x, Const(x.Sort, 0))
	case Str:
		return Bool(x.Len() == 0)
	case Ptr:
		return Bool(x.C == nil)
	case Slice:
		return Bool(x.A == nil)
	case *Map:
		return Bool(x == nil)
	case Iface:
		return Bool(x.T == nil)
	case *Closure:
		return Bool(x == nil)
	case Struct:
		r := tTrue
		st, _ := t.Underlying().(*types.Struct)
		for i, f := range x {
			var ft types.Type
			if st != nil {
				ft = st.Field(i).Type()
			}
			r = tc.And(r, ip.isZeroValue(ft, f))
		}
		return r
	case Array:
		r := tTrue
		for _, f := range x {
			r = tc.And(r, ip.isZeroValue(nil, f))
		}
		return r
	case *RV:
		return Bool(x.T == nil)
	}
	ip.unsupported("IsZero on %T", v)
	return nil
}
