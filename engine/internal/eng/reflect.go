package eng

import "go/types"

// RV models reflect.Value.
type RV struct {
	T    types.Type
	V    Value // direct value when !Addr
	P    Ptr   // location when Addr/indirect
	Addr bool
	RO   bool
	id   int
}

type RType struct{ T types.Type }

func registerReflect(reg func(string, func(*Interp, []Value) Value)) {}

func (ip *Interp) rvStructEq(a, b *RV) *Term {
	ip.unsupported("reflect.Value comparison")
	return nil
}
