package eng

import (
	"fmt"
	"go/token"
	"go/types"
	"os"
	"sort"
	"strings"

	"golang.org/x/tools/go/ssa"
)

// targetPanic is a panic of the interpreted program.
type targetPanic struct {
	V    Value  // the panic value (an interface)
	Site string // function in which it was raised
	Msg  string // message class for runtime panics / best-effort text
}

// pathEnd terminates the current path (never caught by interpreted code).
type pathEnd struct {
	Kind string // "infeasible", "unwound", "unsupported", "done"
	Msg  string
}

type journalEntry struct {
	c   *Value
	old Value
	m   *Map
	mk  []Value
	mv  []Value
}

type frame struct {
	ip        *Interp
	caller    *frame
	fn        *ssa.Function
	block     *ssa.BasicBlock
	prevBlock *ssa.BasicBlock
	env       map[ssa.Value]Value
	defers    []deferred
	result    Value
	panicking bool
	panicVal  *targetPanic
	localObj  *Obj
}

type deferred struct {
	fn   Value
	args []Value
	pos  token.Pos
}

// SymPtr is the address of slice/array element with a symbolic index (all cells scalar terms).
type SymPtr struct {
	A   []Value
	Idx *Term // BV64
	O   *Obj
}

type Interp struct {
	P        *Program
	TC       *TermCtx
	W        *Worker
	globals  map[*ssa.Global]Ptr
	consts   map[*ssa.Const]Value
	journal  []journalEntry
	jsonPath []interface{} // containers on the current descent of the json encoder model
	Epoch    int // current allocation epoch
	Frozen   int // objects with Epoch < Frozen must not be written (0 = off)
	FrozenOK map[string]bool
	nextObj  int
	Steps    int64
	Budget   int64
	depth    int
	inInit   bool
	initDone map[*ssa.Package]bool
	Trace    bool
	curFn    *ssa.Function
	lastPos  token.Pos
	intr     map[string]*Native
	threadID int
	warn     map[string]bool
	skipInitOf func(path string) bool
	intrCache map[*ssa.Function]*Native
	stack     []*ssa.Function
	merging   bool
}

func (ip *Interp) newObj(t types.Type, site string) *Obj {
	ip.nextObj++
	return &Obj{ID: ip.nextObj, Epoch: ip.Epoch, Site: site, T: t}
}

func (ip *Interp) unsupported(format string, args ...interface{}) {
	panic(pathEnd{Kind: "unsupported", Msg: fmt.Sprintf(format, args...) + ip.where()})
}

func (ip *Interp) where() string {
	if ip.curFn == nil {
		return ""
	}
	s := " in " + ip.curFn.String() + " at " + ip.P.Prog.Fset.Position(ip.lastPos).String()
	if ip.P.Verbose {
		s += " stack:"
		for i := len(ip.stack) - 1; i >= 0 && i >= len(ip.stack)-8; i-- {
			s += " < " + ip.stack[i].String()
		}
	}
	return s
}

// ---------- target panics ----------

func (ip *Interp) rtPanic(msg string) {
	// runtime error: value of type runtime.Error (modelled as runtime.errorString)
	site := ""
	if ip.curFn != nil {
		site = ip.curFn.String()
	}
	v := Iface{T: ip.P.runtimeErrorString, V: MkStr(msg)}
	panic(&targetPanic{V: v, Site: site, Msg: "runtime error: " + msg})
}

// ---------- memory ----------

func (ip *Interp) load(t types.Type, p Value) Value {
	switch p := p.(type) {
	case Ptr:
		if p.C == nil {
			ip.rtPanic("invalid memory address or nil pointer dereference")
		}
		if ip.W != nil && ip.W.sched != nil {
			ip.W.sched.access(ip, p, false)
		}
		return copyVal(*p.C)
	case SymPtr:
		return ip.symLoad(p)
	}
	ip.unsupported("load from %T", p)
	return nil
}

func (ip *Interp) symLoad(p SymPtr) Value {
	n := len(p.A)
	if allTerms(p.A) {
		// ite chain from the last element backwards
		res := p.A[n-1].(*Term)
		for i := n - 2; i >= 0; i-- {
			res = ip.TC.Ite(ip.TC.Eq(p.Idx, Const(SBV64, uint64(i))), p.A[i].(*Term), res)
		}
		return res
	}
	// group indices holding identical values and fork over the groups
	type group struct {
		val  Value
		idxs []int
	}
	var groups []*group
outer:
	for i, v := range p.A {
		for _, g := range groups {
			if shallowSame(g.val, v) {
				g.idxs = append(g.idxs, i)
				continue outer
			}
		}
		groups = append(groups, &group{val: v, idxs: []int{i}})
	}
	// largest group last (it becomes the default without a condition of its own)
	sort.SliceStable(groups, func(i, j int) bool { return len(groups[i].idxs) < len(groups[j].idxs) })
	for gi, g := range groups {
		if gi == len(groups)-1 {
			return copyVal(g.val)
		}
		cond := tFalse
		for _, i := range g.idxs {
			cond = ip.TC.Or(cond, ip.TC.Eq(p.Idx, Const(SBV64, uint64(i))))
		}
		if ip.W.Branch(cond) {
			return copyVal(g.val)
		}
	}
	return nil
}

// shallowSame reports whether two stored values are indistinguishable without looking through
// pointers (used to merge table entries).
func shallowSame(a, b Value) bool {
	switch a := a.(type) {
	case *Term:
		bt, ok := b.(*Term)
		return ok && a.IsConst() && bt.IsConst() && a.Sort == bt.Sort && a.C == bt.C
	case Str:
		bs, ok := b.(Str)
		return ok && a.Concrete() && bs.Concrete() && a.S == bs.S
	case Slice:
		bs, ok := b.(Slice)
		if !ok {
			return false
		}
		if a.A == nil || bs.A == nil {
			return a.A == nil && bs.A == nil
		}
		return len(a.A) == len(bs.A) && len(a.A) > 0 && &a.A[0] == &bs.A[0]
	case Ptr:
		bp, ok := b.(Ptr)
		return ok && a.C == bp.C
	case *Closure:
		bc, ok := b.(*Closure)
		return ok && a == bc
	case *ssa.Function:
		bf, ok := b.(*ssa.Function)
		return ok && a == bf
	case Iface:
		bi, ok := b.(Iface)
		if !ok {
			return false
		}
		if a.T == nil || bi.T == nil {
			return a.T == nil && bi.T == nil
		}
		return types.Identical(a.T, bi.T) && shallowSame(a.V, bi.V)
	case *Map:
		bm, ok := b.(*Map)
		return ok && a == bm
	case Struct:
		bs, ok := b.(Struct)
		if !ok || len(a) != len(bs) {
			return false
		}
		for i := range a {
			if !shallowSame(a[i], bs[i]) {
				return false
			}
		}
		return true
	}
	return false
}

func (ip *Interp) checkWrite(o *Obj, what string) {
	if ip.W != nil && ip.W.sched != nil {
		ip.W.sched.accessObj(ip, o, true)
	}
	if ip.Frozen > 0 && o != nil && o.Epoch < ip.Frozen && !ip.inInit {
		site := ""
		if ip.curFn != nil {
			site = ip.curFn.String()
		}
		if ip.FrozenOK != nil && ip.FrozenOK[site] {
			return
		}
		ip.W.frameViolation(ip, o, site, what)
	}
}

func (ip *Interp) setCell(c *Value, o *Obj, v Value) {
	if o == nil || o.Epoch == 0 {
		if !ip.inInit {
			ip.journal = append(ip.journal, journalEntry{c: c, old: *c})
		}
	}
	*c = v
}

func (ip *Interp) store(t types.Type, p Value, v Value) {
	switch p := p.(type) {
	case Ptr:
		if p.C == nil {
			ip.rtPanic("invalid memory address or nil pointer dereference")
		}
		ip.checkWrite(p.O, "store")
		if ip.W != nil && ip.W.sched != nil {
			ip.W.sched.access(ip, p, true)
		}
		ip.storeCell(p.C, p.O, v)
	case SymPtr:
		vt, isT := v.(*Term)
		if !isT || !allTerms(p.A) {
			ip.store(t, ip.toPtr(p), v)
			return
		}
		ip.checkWrite(p.O, "store")
		for i := range p.A {
			old := p.A[i].(*Term)
			nv := ip.TC.Ite(ip.TC.Eq(p.Idx, Const(SBV64, uint64(i))), vt, old)
			ip.setCell(&p.A[i], p.O, nv)
		}
	default:
		ip.unsupported("store to %T", p)
	}
}

func (ip *Interp) storeCell(c *Value, o *Obj, v Value) {
	switch v := v.(type) {
	case Struct:
		if lhs, ok := (*c).(Struct); ok && len(lhs) == len(v) {
			for i := range lhs {
				ip.storeCell(&lhs[i], o, v[i])
			}
			return
		}
		ip.setCell(c, o, copyVal(v))
	case Array:
		if lhs, ok := (*c).(Array); ok && len(lhs) == len(v) {
			for i := range lhs {
				ip.storeCell(&lhs[i], o, v[i])
			}
			return
		}
		ip.setCell(c, o, copyVal(v))
	default:
		ip.setCell(c, o, v)
	}
}

func (ip *Interp) undoJournal(mark int) {
	for i := len(ip.journal) - 1; i >= mark; i-- {
		e := ip.journal[i]
		if e.m != nil {
			e.m.Keys, e.m.Vals = e.mk, e.mv
		} else {
			*e.c = e.old
		}
	}
	ip.journal = ip.journal[:mark]
}

// ---------- frames ----------

func (fr *frame) get(key ssa.Value) Value {
	switch key := key.(type) {
	case nil:
		return nil
	case *ssa.Function:
		return key
	case *ssa.Builtin:
		return key
	case *ssa.Const:
		if v, ok := fr.ip.consts[key]; ok {
			return copyVal(v)
		}
		v := constValue(key)
		fr.ip.consts[key] = v
		return copyVal(v)
	case *ssa.Global:
		return fr.ip.global(key)
	}
	if r, ok := fr.env[key]; ok {
		return r
	}
	panic(fmt.Sprintf("get: no value for %T: %v in %v", key, key.Name(), fr.fn))
}

func (ip *Interp) global(g *ssa.Global) Ptr {
	if p, ok := ip.globals[g]; ok {
		return p
	}
	t := g.Type().(*types.Pointer).Elem()
	c := new(Value)
	*c = zero(t)
	saveEpoch := ip.Epoch
	ip.Epoch = 0
	o := ip.newObj(t, "global "+g.String())
	ip.Epoch = saveEpoch
	p := Ptr{C: c, O: o}
	ip.globals[g] = p
	if g.Pkg != nil && !ip.initDone[g.Pkg] && !ip.inInit {
		if !ip.warn[g.String()] {
			ip.warn[g.String()] = true
			if ip.P.Verbose {
				fmt.Fprintf(os.Stderr, "warning: global %s of uninitialised package read\n", g)
			}
		}
	}
	return p
}

func (ip *Interp) term(v Value) *Term {
	t, ok := v.(*Term)
	if !ok {
		ip.unsupported("expected scalar, got %T", v)
	}
	return t
}

// concrete int of a value (forking if symbolic within [lo,hi]).
func (ip *Interp) concInt(v Value, lo, hi int64) int64 {
	t := ip.term(v)
	if t.IsConst() {
		return t.Int()
	}
	return ip.W.ConcretizeRange(t, lo, hi)
}

func (ip *Interp) cond(v Value) bool {
	t := ip.term(v)
	if t.IsConst() {
		return t.C == 1
	}
	return ip.W.Branch(t)
}

func (ip *Interp) runDefers(fr *frame) {
	for len(fr.defers) > 0 {
		d := fr.defers[len(fr.defers)-1]
		fr.defers = fr.defers[:len(fr.defers)-1]
		func() {
			defer func() {
				if r := recover(); r != nil {
					if tp, ok := r.(*targetPanic); ok {
						fr.panicking = true
						fr.panicVal = tp
						return
					}
					panic(r)
				}
			}()
			ip.call(fr, d.pos, d.fn, d.args)
		}()
	}
	if fr.panicking {
		panic(fr.panicVal)
	}
}

func (ip *Interp) callSSA(caller *frame, pos token.Pos, fn *ssa.Function, args []Value, env []Value) Value {
	if fn.Parent() == nil || true {
		if n := ip.lookupIntrinsic(fn); n != nil {
			saveFn := ip.curFn
			r := n.Fn(ip, args)
			ip.curFn = saveFn
			return r
		}
	}
	if fn.Blocks == nil {
		ip.unsupported("no code for function %s", fn.String())
	}
	if fn.Pkg != nil {
		switch fn.Pkg.Pkg.Path() {
		case "reflect", "internal/abi", "internal/reflectlite", "unsafe", "runtime", "syscall", "os", "sync/atomic":
			// these packages work on raw memory / runtime structures and are only usable through the models
			ip.unsupported("function %s is outside the reflect/runtime model", fn.String())
		}
	}
	if ip.W != nil && !ip.merging && ip.P.MergeFns[fn.String()] && !ip.inInit {
		if r, ok := ip.callMerged(caller, pos, fn, args, env); ok {
			return r
		}
	}
	return ip.callSSAPlain(caller, pos, fn, args, env)
}

func (ip *Interp) callSSAPlain(caller *frame, pos token.Pos, fn *ssa.Function, args []Value, env []Value) Value {
	if fn.TypeParams().Len() > 0 && len(fn.TypeArgs()) == 0 {
		ip.unsupported("uninstantiated generic %s", fn.String())
	}
	ip.depth++
	if ip.depth > 3000 {
		panic(pathEnd{Kind: "unwound", Msg: "call depth exceeded in " + fn.String()})
	}
	saveFn, savePos := ip.curFn, ip.lastPos
	ip.stack = append(ip.stack, fn)
	defer func() { ip.depth--; ip.curFn = saveFn; ip.lastPos = savePos; ip.stack = ip.stack[:len(ip.stack)-1] }()
	ip.curFn = fn
	fr := &frame{ip: ip, caller: caller, fn: fn}
	fr.env = make(map[ssa.Value]Value, 16)
	fr.block = fn.Blocks[0]
	if len(fn.Locals) > 0 {
		fr.localObj = ip.newObj(nil, "locals of "+fn.String())
		for _, l := range fn.Locals {
			c := new(Value)
			*c = zero(l.Type().(*types.Pointer).Elem())
			fr.env[l] = Ptr{C: c, O: fr.localObj}
		}
	}
	for i, p := range fn.Params {
		fr.env[p] = args[i]
	}
	for i, fv := range fn.FreeVars {
		fr.env[fv] = env[i]
	}
	if ip.Trace {
		fmt.Fprintf(os.Stderr, "%*sEnter %s\n", ip.depth, "", fn)
	}
	for fr.block != nil {
		ip.runFrame(fr)
	}
	return fr.result
}

func (ip *Interp) runFrame(fr *frame) {
	defer func() {
		if fr.block == nil {
			return
		}
		r := recover()
		if r == nil {
			return
		}
		tp, ok := r.(*targetPanic)
		if !ok {
			panic(r) // path end or engine bug
		}
		fr.panicking = true
		fr.panicVal = tp
		ip.curFn = fr.fn
		ip.runDefers(fr) // re-panics if still panicking
		// recovered
		fr.block = fr.fn.Recover
		if fr.block == nil {
			// no named results: return zero values
			fr.result = zeroResults(fr.fn)
		}
	}()
	for {
		ip.executePhis(fr)
		for _, instr := range fr.block.Instrs {
			if _, ok := instr.(*ssa.Phi); ok {
				continue
			}
			ip.Steps++
			if ip.Steps > ip.Budget && !ip.inInit {
				panic(pathEnd{Kind: "unwound", Msg: "instruction budget exceeded" + ip.where()})
			}
			if p := instr.Pos(); p != token.NoPos {
				ip.lastPos = p
			}
			cont := ip.visit(fr, instr)
			if cont == kReturn || fr.block == nil {
				return
			}
			if cont == kJump {
				break
			}
		}
	}
}

func zeroResults(fn *ssa.Function) Value {
	res := fn.Signature.Results()
	switch res.Len() {
	case 0:
		return nil
	case 1:
		return zero(res.At(0).Type())
	}
	t := make(Tuple, res.Len())
	for i := range t {
		t[i] = zero(res.At(i).Type())
	}
	return t
}

func (ip *Interp) executePhis(fr *frame) {
	var tmp []Value
	var phis []*ssa.Phi
	for _, instr := range fr.block.Instrs {
		phi, ok := instr.(*ssa.Phi)
		if !ok {
			break
		}
		idx := -1
		for i, p := range fr.block.Preds {
			if p == fr.prevBlock {
				idx = i
				break
			}
		}
		tmp = append(tmp, fr.get(phi.Edges[idx]))
		phis = append(phis, phi)
	}
	for i, phi := range phis {
		fr.env[phi] = tmp[i]
	}
}

type continuation int

const (
	kNext continuation = iota
	kReturn
	kJump
)

func (ip *Interp) visit(fr *frame, instr ssa.Instruction) continuation {
	if ip.Trace {
		if v, ok := instr.(ssa.Value); ok {
			fmt.Fprintf(os.Stderr, "%*s  %s = %s\n", ip.depth, "", v.Name(), instr)
		} else {
			fmt.Fprintf(os.Stderr, "%*s  %s\n", ip.depth, "", instr)
		}
	}
	switch instr := instr.(type) {
	case *ssa.DebugRef:
	case *ssa.UnOp:
		fr.env[instr] = ip.unop(instr, fr.get(instr.X))
	case *ssa.BinOp:
		fr.env[instr] = ip.binop(instr.Op, instr.X.Type(), fr.get(instr.X), fr.get(instr.Y))
	case *ssa.Call:
		fn, args := ip.prepareCall(fr, &instr.Call)
		fr.env[instr] = ip.call(fr, instr.Pos(), fn, args)
		ip.curFn = fr.fn
	case *ssa.ChangeInterface:
		fr.env[instr] = fr.get(instr.X)
	case *ssa.ChangeType:
		fr.env[instr] = fr.get(instr.X)
	case *ssa.Convert:
		fr.env[instr] = ip.conv(instr.Type(), instr.X.Type(), fr.get(instr.X))
	case *ssa.SliceToArrayPointer:
		ip.unsupported("SliceToArrayPointer")
	case *ssa.MakeInterface:
		fr.env[instr] = Iface{T: instr.X.Type(), V: fr.get(instr.X)}
	case *ssa.Extract:
		fr.env[instr] = fr.get(instr.Tuple).(Tuple)[instr.Index]
	case *ssa.Slice:
		fr.env[instr] = ip.slice(instr, fr.get(instr.X), fr.get(instr.Low), fr.get(instr.High), fr.get(instr.Max))
	case *ssa.Return:
		switch len(instr.Results) {
		case 0:
		case 1:
			fr.result = fr.get(instr.Results[0])
		default:
			res := make(Tuple, len(instr.Results))
			for i, r := range instr.Results {
				res[i] = fr.get(r)
			}
			fr.result = res
		}
		fr.block = nil
		return kReturn
	case *ssa.RunDefers:
		ip.runDefers(fr)
	case *ssa.Panic:
		v := fr.get(instr.X)
		panic(&targetPanic{V: v, Site: fr.fn.String(), Msg: ip.panicText(v)})
	case *ssa.Store:
		ip.store(instr.Val.Type(), fr.get(instr.Addr), fr.get(instr.Val))
	case *ssa.If:
		succ := 1
		if ip.cond(fr.get(instr.Cond)) {
			succ = 0
		}
		fr.prevBlock, fr.block = fr.block, fr.block.Succs[succ]
		return kJump
	case *ssa.Jump:
		fr.prevBlock, fr.block = fr.block, fr.block.Succs[0]
		return kJump
	case *ssa.Defer:
		fn, args := ip.prepareCall(fr, &instr.Call)
		fr.defers = append(fr.defers, deferred{fn: fn, args: args, pos: instr.Pos()})
	case *ssa.Go:
		fn, args := ip.prepareCall(fr, &instr.Call)
		if ip.W != nil && ip.W.sched != nil {
			ip.W.sched.spawn(ip, fn, args)
		} else {
			ip.unsupported("go statement")
		}
	case *ssa.MakeChan:
		fr.env[instr] = Opaque{T: instr.Type()}
	case *ssa.Alloc:
		t := instr.Type().(*types.Pointer).Elem()
		if instr.Heap {
			c := new(Value)
			*c = zero(t)
			fr.env[instr] = Ptr{C: c, O: ip.newObj(t, fr.fn.String())}
		} else {
			p := fr.env[instr].(Ptr)
			*p.C = zero(t)
		}
	case *ssa.MakeSlice:
		capv := ip.concInt(fr.get(instr.Cap), 0, 64)
		lenv := ip.concInt(fr.get(instr.Len), 0, 64)
		if lenv < 0 || lenv > 1<<30 {
			ip.rtPanic("makeslice: len out of range")
		}
		if capv < lenv || capv > 1<<30 {
			ip.rtPanic("makeslice: cap out of range")
		}
		if capv > 1<<22 {
			panic(pathEnd{Kind: "unwound", Msg: "huge makeslice"})
		}
		tElt := instr.Type().Underlying().(*types.Slice).Elem()
		a := make([]Value, capv)
		z := zero(tElt)
		for i := range a {
			a[i] = copyVal(z)
		}
		fr.env[instr] = Slice{A: a[:lenv], O: ip.newObj(tElt, fr.fn.String())}
	case *ssa.MakeMap:
		mt := instr.Type().Underlying().(*types.Map)
		fr.env[instr] = &Map{O: ip.newObj(mt, fr.fn.String()), KT: mt.Key(), VT: mt.Elem()}
	case *ssa.Range:
		fr.env[instr] = ip.rangeIter(fr.get(instr.X), instr.X.Type())
	case *ssa.Next:
		fr.env[instr] = fr.get(instr.Iter).(iter).next(ip)
	case *ssa.FieldAddr:
		p := ip.toPtr(fr.get(instr.X))
		if p.C == nil {
			ip.rtPanic("invalid memory address or nil pointer dereference")
		}
		st, ok := (*p.C).(Struct)
		if !ok {
			ip.unsupported("FieldAddr on %T", *p.C)
		}
		fr.env[instr] = Ptr{C: &st[instr.Field], O: p.O}
	case *ssa.Field:
		fr.env[instr] = copyVal(fr.get(instr.X).(Struct)[instr.Field])
	case *ssa.IndexAddr:
		fr.env[instr] = ip.indexAddr(fr.get(instr.X), ip.toIdx(fr.get(instr.Index), instr.Index.Type()))
	case *ssa.Index:
		fr.env[instr] = ip.index(fr.get(instr.X), ip.toIdx(fr.get(instr.Index), instr.Index.Type()))
	case *ssa.Lookup:
		fr.env[instr] = ip.lookup(instr, fr.get(instr.X), fr.get(instr.Index))
	case *ssa.MapUpdate:
		m, _ := fr.get(instr.Map).(*Map)
		ip.mapUpdate(m, fr.get(instr.Key), fr.get(instr.Value))
	case *ssa.TypeAssert:
		fr.env[instr] = ip.typeAssert(instr, fr.get(instr.X))
	case *ssa.MakeClosure:
		var bindings []Value
		for _, b := range instr.Bindings {
			bindings = append(bindings, fr.get(b))
		}
		fr.env[instr] = &Closure{Fn: instr.Fn.(*ssa.Function), Env: bindings}
	case *ssa.Select, *ssa.Send:
		ip.unsupported("channel operation")
	default:
		ip.unsupported("instruction %T", instr)
	}
	return kNext
}

func (ip *Interp) toPtr(v Value) Ptr {
	switch v := v.(type) {
	case Ptr:
		return v
	case SymPtr:
		i := ip.W.ConcretizeRange(v.Idx, 0, int64(len(v.A)-1))
		return Ptr{C: &v.A[i], O: v.O}
	}
	ip.unsupported("expected pointer, got %T", v)
	return Ptr{}
}

func allTerms(a []Value) bool {
	for _, v := range a {
		if _, ok := v.(*Term); !ok {
			return false
		}
	}
	return true
}

func (ip *Interp) checkIndex(idx *Term, n int) {
	// idx is BV64 (int); panics (target) when out of range
	if idx.IsConst() {
		if idx.Int() < 0 || idx.Int() >= int64(n) {
			ip.rtPanic(fmt.Sprintf("index out of range [%d] with length %d", idx.Int(), n))
		}
		return
	}
	inRange := ip.TC.ULt(idx, Const(SBV64, uint64(n)))
	if !ip.W.Branch(inRange) {
		ip.rtPanic(fmt.Sprintf("index out of range [sym] with length %d", n))
	}
}

func (ip *Interp) idx64(v Value) *Term {
	t := ip.term(v)
	if t.Sort != SBV64 {
		ip.unsupported("index not widened")
	}
	return t
}

// toIdx widens an index value of integer type t to BV64 honouring signedness.
func (ip *Interp) toIdx(v Value, t types.Type) Value {
	x := ip.term(v)
	if x.Sort == SBV64 {
		return x
	}
	return ip.TC.Resize(x, SBV64, isSigned(t))
}

func (ip *Interp) indexAddr(x Value, idxv Value) Value {
	idx := ip.idx64(idxv)
	var a []Value
	var o *Obj
	switch x := x.(type) {
	case Slice:
		a, o = x.A, x.O
	case Ptr:
		if x.C == nil {
			ip.rtPanic("invalid memory address or nil pointer dereference")
		}
		arr, ok := (*x.C).(Array)
		if !ok {
			ip.unsupported("IndexAddr on pointer to %T", *x.C)
		}
		a, o = arr, x.O
	case SymPtr:
		return ip.indexAddr(ip.toPtr(x), idxv)
	default:
		ip.unsupported("IndexAddr on %T", x)
	}
	ip.checkIndex(idx, len(a))
	if idx.IsConst() {
		return Ptr{C: &a[idx.Int()], O: o}
	}
	return SymPtr{A: a, Idx: idx, O: o}
}

func (ip *Interp) index(x Value, idxv Value) Value {
	idx := ip.idx64(idxv)
	switch x := x.(type) {
	case Array:
		ip.checkIndex(idx, len(x))
		if idx.IsConst() {
			return copyVal(x[idx.Int()])
		}
		return ip.symLoad(SymPtr{A: x, Idx: idx})
	case Str:
		return ip.strIndex(x, idx)
	}
	ip.unsupported("Index on %T", x)
	return nil
}

func (ip *Interp) strIndex(s Str, idx *Term) Value {
	ip.checkIndex(idx, s.Len())
	if idx.IsConst() {
		return s.At(int(idx.Int()))
	}
	n := s.Len()
	res := s.At(n - 1)
	for i := n - 2; i >= 0; i-- {
		res = ip.TC.Ite(ip.TC.Eq(idx, Const(SBV64, uint64(i))), s.At(i), res)
	}
	return res
}

func (ip *Interp) lookup(instr *ssa.Lookup, x Value, key Value) Value {
	switch x := x.(type) {
	case Str:
		return ip.strIndex(x, ip.toIdx(key, instr.Index.Type()).(*Term))
	case *Map:
		v, ok := ip.mapGet(x, key)
		if !ok {
			v = zero(instr.X.Type().Underlying().(*types.Map).Elem())
		}
		if instr.CommaOk {
			return Tuple{copyVal(v), Bool(ok)}
		}
		return copyVal(v)
	}
	ip.unsupported("Lookup on %T", x)
	return nil
}

func (ip *Interp) prepareCall(fr *frame, call *ssa.CallCommon) (Value, []Value) {
	v := fr.get(call.Value)
	var args []Value
	var fn Value
	if call.Method == nil {
		fn = v
	} else {
		recv, ok := v.(Iface)
		if !ok {
			ip.unsupported("invoke on %T", v)
		}
		if recv.T == nil {
			ip.rtPanic("invalid memory address or nil pointer dereference")
		}
		f := ip.lookupMethod(recv.T, call.Method)
		if f == nil {
			ip.unsupported("method %s not found for dynamic type %s", call.Method.Name(), recv.T)
		}
		fn = f
		args = append(args, recv.V)
	}
	for _, a := range call.Args {
		args = append(args, fr.get(a))
	}
	return fn, args
}

func (ip *Interp) lookupMethod(t types.Type, meth *types.Func) *ssa.Function {
	return ip.P.Prog.LookupMethod(t, meth.Pkg(), meth.Name())
}

func (ip *Interp) call(caller *frame, pos token.Pos, fn Value, args []Value) Value {
	switch fn := fn.(type) {
	case *ssa.Function:
		if fn == nil {
			ip.rtPanic("invalid memory address or nil pointer dereference")
		}
		return ip.callSSA(caller, pos, fn, args, nil)
	case *Closure:
		if fn == nil {
			ip.rtPanic("invalid memory address or nil pointer dereference")
		}
		return ip.callSSA(caller, pos, fn.Fn, args, fn.Env)
	case *ssa.Builtin:
		return ip.callBuiltin(caller, pos, fn, args)
	case *Native:
		return fn.Fn(ip, args)
	}
	ip.unsupported("cannot call %T", fn)
	return nil
}

// CallFunc calls a function value from engine code.
func (ip *Interp) CallFunc(fn Value, args ...Value) Value {
	return ip.call(nil, token.NoPos, fn, args)
}

func (ip *Interp) panicText(v Value) string {
	switch v := v.(type) {
	case Iface:
		if v.T == nil {
			return "nil"
		}
		return "(" + typeString(v.T) + ") " + ip.panicText(v.V)
	case Str:
		if v.Concrete() {
			return v.S
		}
		return "<symbolic string>"
	case *Term:
		if v.IsConst() {
			return fmt.Sprint(v.Int())
		}
		return "<sym>"
	case Ptr:
		if v.C != nil {
			if st, ok := (*v.C).(Struct); ok {
				var parts []string
				for _, f := range st {
					switch f.(type) {
					case Str, *Term:
						parts = append(parts, ip.panicText(f))
					}
				}
				return "&{" + strings.Join(parts, " ") + "}"
			}
		}
		return "ptr"
	}
	return fmt.Sprintf("%T", v)
}
