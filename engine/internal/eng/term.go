package eng

import (
	"fmt"
	"math"
	"math/bits"
	"strings"
)

// Sort of an SMT term.
type Sort uint8

const (
	SBool Sort = iota
	SBV8
	SBV16
	SBV32
	SBV64
	SFP32
	SFP64
)

func (s Sort) Bits() int {
	switch s {
	case SBool:
		return 1
	case SBV8:
		return 8
	case SBV16:
		return 16
	case SBV32, SFP32:
		return 32
	case SBV64, SFP64:
		return 64
	}
	panic("bad sort")
}

func (s Sort) IsBV() bool { return s >= SBV8 && s <= SBV64 }
func (s Sort) IsFP() bool { return s == SFP32 || s == SFP64 }

func (s Sort) SMT() string {
	switch s {
	case SBool:
		return "Bool"
	case SBV8:
		return "(_ BitVec 8)"
	case SBV16:
		return "(_ BitVec 16)"
	case SBV32:
		return "(_ BitVec 32)"
	case SBV64:
		return "(_ BitVec 64)"
	case SFP32:
		return "(_ FloatingPoint 8 24)"
	case SFP64:
		return "(_ FloatingPoint 11 53)"
	}
	panic("bad sort")
}

func bvSort(n int) Sort {
	switch n {
	case 8:
		return SBV8
	case 16:
		return SBV16
	case 32:
		return SBV32
	case 64:
		return SBV64
	}
	panic(fmt.Sprintf("bad bv width %d", n))
}

type Op uint8

const (
	OConst Op = iota
	OVar
	// bool
	ONot
	OAnd
	OOr
	OIte // any sort
	OEq  // any sort (bv/bool); for fp it is fp.eq? no: use OFEq
	// bv
	OAdd
	OSub
	OMul
	OUDiv
	OSDiv
	OURem
	OSRem
	OBAnd
	OBOr
	OBXor
	OBNot
	ONeg
	OShl
	OLShr
	OAShr
	OULt
	OULe
	OSLt
	OSLe
	OExtract // P1=hi P2=lo
	OZext    // to Sort
	OSext
	OConcat
	// fp
	OFAdd
	OFSub
	OFMul
	OFDiv
	OFNeg
	OFAbs
	OFSqrt
	OFEq
	OFLt
	OFLe
	OFIsNaN
	OFIsInf
	OFRound   // P1 = rounding mode (0 RNE,1 RTZ,2 RTN(floor),3 RTP(ceil),4 RNA)
	OFToSBV   // RTZ, to Sort
	OFToUBV   // RTZ
	OFFromSBV // RNE
	OFFromUBV
	OFFromBits // bv -> fp reinterpret
	OFToFP     // fp -> fp other width (RNE)
	// uninterpreted function application: Name = function name
	OUF
)

type Term struct {
	Op   Op
	Sort Sort
	C    uint64
	A    []*Term
	P1   int
	P2   int
	Name string
	id   int32
}

func (t *Term) IsConst() bool { return t.Op == OConst }
func (t *Term) ID() int32     { return t.id }

type termKey struct {
	op         Op
	sort       Sort
	p1, p2     int
	a0, a1, a2 int32
	name       string
}

// TermCtx hash-conses non-constant terms. One per worker (not thread safe).
type TermCtx struct {
	tab    map[termKey]*Term
	nextID int32
	Vars   []*Term
	ufs    map[string]string // uf name -> declaration
	varsMemo map[int32][]int32
}

func NewTermCtx() *TermCtx {
	return &TermCtx{tab: map[termKey]*Term{}, nextID: 1, ufs: map[string]string{}, varsMemo: map[int32][]int32{}}
}

var (
	tTrue  = &Term{Op: OConst, Sort: SBool, C: 1}
	tFalse = &Term{Op: OConst, Sort: SBool, C: 0}
)

func Bool(b bool) *Term {
	if b {
		return tTrue
	}
	return tFalse
}

func mask(s Sort) uint64 {
	n := s.Bits()
	if n == 64 {
		return ^uint64(0)
	}
	return (uint64(1) << uint(n)) - 1
}

func Const(s Sort, v uint64) *Term {
	if s == SBool {
		return Bool(v&1 == 1)
	}
	return &Term{Op: OConst, Sort: s, C: v & mask(s)}
}

func ConstF64(f float64) *Term { return &Term{Op: OConst, Sort: SFP64, C: math.Float64bits(f)} }
func ConstF32(f float32) *Term {
	return &Term{Op: OConst, Sort: SFP32, C: uint64(math.Float32bits(f))}
}

func (t *Term) F64() float64 { return math.Float64frombits(t.C) }
func (t *Term) F32() float32 { return math.Float32frombits(uint32(t.C)) }

// signed value of a BV const
func (t *Term) Int() int64 {
	n := t.Sort.Bits()
	return int64(t.C<<(64-uint(n))) >> (64 - uint(n))
}

func (c *TermCtx) mk(op Op, s Sort, p1, p2 int, name string, args ...*Term) *Term {
	k := termKey{op: op, sort: s, p1: p1, p2: p2, name: name}
	if len(args) > 3 {
		// n-ary UF: fold ids into name key
		var sb strings.Builder
		sb.WriteString(name)
		for _, a := range args {
			fmt.Fprintf(&sb, ",%d", c.idOf(a))
		}
		k.name = sb.String()
	} else {
		if len(args) > 0 {
			k.a0 = c.idOf(args[0])
		}
		if len(args) > 1 {
			k.a1 = c.idOf(args[1])
		}
		if len(args) > 2 {
			k.a2 = c.idOf(args[2])
		}
	}
	if t, ok := c.tab[k]; ok {
		return t
	}
	t := &Term{Op: op, Sort: s, P1: p1, P2: p2, Name: name, A: append([]*Term(nil), args...), id: c.nextID}
	c.nextID++
	c.tab[k] = t
	return t
}

// constants get negative pseudo ids keyed by a per-ctx table so that hash consing works
func (c *TermCtx) idOf(t *Term) int32 {
	if t.id != 0 {
		return t.id
	}
	// constant: intern
	k := termKey{op: OConst, sort: t.Sort, name: fmt.Sprintf("%x", t.C)}
	if u, ok := c.tab[k]; ok {
		return u.id
	}
	u := &Term{Op: OConst, Sort: t.Sort, C: t.C, id: c.nextID}
	c.nextID++
	c.tab[k] = u
	return u.id
}

func (c *TermCtx) Var(s Sort, name string) *Term {
	k := termKey{op: OVar, sort: s, name: name}
	if t, ok := c.tab[k]; ok {
		return t
	}
	t := &Term{Op: OVar, Sort: s, Name: name, id: c.nextID}
	c.nextID++
	c.tab[k] = t
	c.Vars = append(c.Vars, t)
	return t
}

// ---------- boolean ----------

func (c *TermCtx) Not(a *Term) *Term {
	if a.IsConst() {
		return Bool(a.C == 0)
	}
	if a.Op == ONot {
		return a.A[0]
	}
	return c.mk(ONot, SBool, 0, 0, "", a)
}

func (c *TermCtx) And(a, b *Term) *Term {
	if a.IsConst() {
		if a.C == 0 {
			return tFalse
		}
		return b
	}
	if b.IsConst() {
		if b.C == 0 {
			return tFalse
		}
		return a
	}
	if a == b {
		return a
	}
	return c.mk(OAnd, SBool, 0, 0, "", a, b)
}

func (c *TermCtx) Or(a, b *Term) *Term {
	if a.IsConst() {
		if a.C == 1 {
			return tTrue
		}
		return b
	}
	if b.IsConst() {
		if b.C == 1 {
			return tTrue
		}
		return a
	}
	if a == b {
		return a
	}
	return c.mk(OOr, SBool, 0, 0, "", a, b)
}

func (c *TermCtx) Ite(cond, a, b *Term) *Term {
	if cond.IsConst() {
		if cond.C == 1 {
			return a
		}
		return b
	}
	if a == b {
		return a
	}
	if a.IsConst() && b.IsConst() && a.Sort == b.Sort && a.C == b.C {
		return a
	}
	if a.Sort == SBool && a.IsConst() && b.IsConst() {
		if a.C == 1 && b.C == 0 {
			return cond
		}
		if a.C == 0 && b.C == 1 {
			return c.Not(cond)
		}
	}
	if a.Sort != b.Sort {
		panic(fmt.Sprintf("ite sort mismatch %v %v", a.Sort, b.Sort))
	}
	return c.mk(OIte, a.Sort, 0, 0, "", cond, a, b)
}

// Eq is structural/bit equality for Bool and BV sorts; for FP use FEq (IEEE) or bit equality via caller.
func (c *TermCtx) Eq(a, b *Term) *Term {
	if a.Sort != b.Sort {
		panic(fmt.Sprintf("eq sort mismatch %v %v", a.Sort, b.Sort))
	}
	if a.Sort.IsFP() {
		return c.FEq(a, b)
	}
	if a.IsConst() && b.IsConst() {
		return Bool(a.C == b.C)
	}
	if a == b {
		return tTrue
	}
	if a.Sort == SBool {
		if a.IsConst() {
			if a.C == 1 {
				return b
			}
			return c.Not(b)
		}
		if b.IsConst() {
			if b.C == 1 {
				return a
			}
			return c.Not(a)
		}
	}
	// ite(c, k1, k2) == k  simplification
	if b.IsConst() && a.Op == OIte && a.A[1].IsConst() && a.A[2].IsConst() {
		x, y := a.A[1].C == b.C, a.A[2].C == b.C
		switch {
		case x && y:
			return tTrue
		case x && !y:
			return a.A[0]
		case !x && y:
			return c.Not(a.A[0])
		default:
			return tFalse
		}
	}
	if a.IsConst() && !b.IsConst() {
		a, b = b, a
	}
	if !a.IsConst() && !b.IsConst() && a.id > b.id {
		a, b = b, a
	}
	return c.mk(OEq, SBool, 0, 0, "", a, b)
}

// ---------- bit-vectors ----------

func sx(v uint64, s Sort) int64 {
	n := uint(s.Bits())
	return int64(v<<(64-n)) >> (64 - n)
}

func (c *TermCtx) bin(op Op, a, b *Term) *Term {
	if a.Sort != b.Sort {
		panic(fmt.Sprintf("binop %d sort mismatch %v %v", op, a.Sort, b.Sort))
	}
	s := a.Sort
	if a.IsConst() && b.IsConst() {
		x, y := a.C, b.C
		n := uint64(s.Bits())
		switch op {
		case OAdd:
			return Const(s, x+y)
		case OSub:
			return Const(s, x-y)
		case OMul:
			return Const(s, x*y)
		case OUDiv:
			if y == 0 {
				return Const(s, mask(s))
			}
			return Const(s, x/y)
		case OURem:
			if y == 0 {
				return Const(s, x)
			}
			return Const(s, x%y)
		case OSDiv:
			if y == 0 {
				if sx(x, s) < 0 {
					return Const(s, 1)
				}
				return Const(s, mask(s))
			}
			sxv, syv := sx(x, s), sx(y, s)
			if syv == -1 {
				return Const(s, uint64(-sxv))
			}
			return Const(s, uint64(sxv/syv))
		case OSRem:
			if y == 0 {
				return Const(s, x)
			}
			sxv, syv := sx(x, s), sx(y, s)
			if syv == -1 {
				return Const(s, 0)
			}
			return Const(s, uint64(sxv%syv))
		case OBAnd:
			return Const(s, x&y)
		case OBOr:
			return Const(s, x|y)
		case OBXor:
			return Const(s, x^y)
		case OShl:
			if y >= n {
				return Const(s, 0)
			}
			return Const(s, x<<y)
		case OLShr:
			if y >= n {
				return Const(s, 0)
			}
			return Const(s, x>>y)
		case OAShr:
			if y >= n {
				y = n - 1
			}
			return Const(s, uint64(sx(x, s)>>y))
		}
	}
	// light simplifications
	switch op {
	case OAdd:
		if a.IsConst() && a.C == 0 {
			return b
		}
		if b.IsConst() && b.C == 0 {
			return a
		}
	case OSub:
		if b.IsConst() && b.C == 0 {
			return a
		}
		if a == b {
			return Const(s, 0)
		}
	case OMul:
		if a.IsConst() && a.C == 1 {
			return b
		}
		if b.IsConst() && b.C == 1 {
			return a
		}
		if (a.IsConst() && a.C == 0) || (b.IsConst() && b.C == 0) {
			return Const(s, 0)
		}
	case OBAnd:
		if a.IsConst() && a.C == mask(s) {
			return b
		}
		if b.IsConst() && b.C == mask(s) {
			return a
		}
		if (a.IsConst() && a.C == 0) || (b.IsConst() && b.C == 0) {
			return Const(s, 0)
		}
	case OBOr, OBXor:
		if a.IsConst() && a.C == 0 {
			return b
		}
		if b.IsConst() && b.C == 0 {
			return a
		}
	case OShl, OLShr, OAShr:
		if b.IsConst() && b.C == 0 {
			return a
		}
	}
	return c.mk(op, s, 0, 0, "", a, b)
}

func (c *TermCtx) Add(a, b *Term) *Term  { return c.bin(OAdd, a, b) }
func (c *TermCtx) Sub(a, b *Term) *Term  { return c.bin(OSub, a, b) }
func (c *TermCtx) Mul(a, b *Term) *Term  { return c.bin(OMul, a, b) }
func (c *TermCtx) UDiv(a, b *Term) *Term { return c.bin(OUDiv, a, b) }
func (c *TermCtx) SDiv(a, b *Term) *Term { return c.bin(OSDiv, a, b) }
func (c *TermCtx) URem(a, b *Term) *Term { return c.bin(OURem, a, b) }
func (c *TermCtx) SRem(a, b *Term) *Term { return c.bin(OSRem, a, b) }
func (c *TermCtx) BAnd(a, b *Term) *Term { return c.bin(OBAnd, a, b) }
func (c *TermCtx) BOr(a, b *Term) *Term  { return c.bin(OBOr, a, b) }
func (c *TermCtx) BXor(a, b *Term) *Term { return c.bin(OBXor, a, b) }
func (c *TermCtx) Shl(a, b *Term) *Term  { return c.bin(OShl, a, b) }
func (c *TermCtx) LShr(a, b *Term) *Term { return c.bin(OLShr, a, b) }
func (c *TermCtx) AShr(a, b *Term) *Term { return c.bin(OAShr, a, b) }

func (c *TermCtx) BNot(a *Term) *Term {
	if a.IsConst() {
		return Const(a.Sort, ^a.C)
	}
	return c.mk(OBNot, a.Sort, 0, 0, "", a)
}

func (c *TermCtx) Neg(a *Term) *Term {
	if a.IsConst() {
		return Const(a.Sort, -a.C)
	}
	return c.mk(ONeg, a.Sort, 0, 0, "", a)
}

func (c *TermCtx) cmp(op Op, a, b *Term) *Term {
	if a.Sort != b.Sort {
		panic(fmt.Sprintf("cmp sort mismatch %v %v", a.Sort, b.Sort))
	}
	if a.IsConst() && b.IsConst() {
		switch op {
		case OULt:
			return Bool(a.C < b.C)
		case OULe:
			return Bool(a.C <= b.C)
		case OSLt:
			return Bool(a.Int() < b.Int())
		case OSLe:
			return Bool(a.Int() <= b.Int())
		}
	}
	if a == b {
		return Bool(op == OULe || op == OSLe)
	}
	return c.mk(op, SBool, 0, 0, "", a, b)
}

func (c *TermCtx) ULt(a, b *Term) *Term { return c.cmp(OULt, a, b) }
func (c *TermCtx) ULe(a, b *Term) *Term { return c.cmp(OULe, a, b) }
func (c *TermCtx) SLt(a, b *Term) *Term { return c.cmp(OSLt, a, b) }
func (c *TermCtx) SLe(a, b *Term) *Term { return c.cmp(OSLe, a, b) }

func (c *TermCtx) Extract(a *Term, hi, lo int) *Term {
	s := bvSort(hi - lo + 1)
	if s == a.Sort {
		return a
	}
	if a.IsConst() {
		return Const(s, a.C>>uint(lo))
	}
	if lo == 0 && (a.Op == OZext || a.Op == OSext) {
		inner := a.A[0]
		if inner.Sort == s {
			return inner
		}
		if inner.Sort.Bits() > s.Bits() {
			return c.Extract(inner, hi, lo)
		}
		// extending then truncating to something still wider than inner
		return c.mk(a.Op, s, 0, 0, "", inner)
	}
	return c.mk(OExtract, s, hi, lo, "", a)
}

func (c *TermCtx) Zext(a *Term, s Sort) *Term {
	if a.Sort == s {
		return a
	}
	if a.IsConst() {
		return Const(s, a.C)
	}
	return c.mk(OZext, s, 0, 0, "", a)
}

func (c *TermCtx) Sext(a *Term, s Sort) *Term {
	if a.Sort == s {
		return a
	}
	if a.IsConst() {
		return Const(s, uint64(a.Int()))
	}
	return c.mk(OSext, s, 0, 0, "", a)
}

// Resize converts BV a to sort s, sign- or zero-extending according to signed, or truncating.
func (c *TermCtx) Resize(a *Term, s Sort, signed bool) *Term {
	switch {
	case a.Sort == s:
		return a
	case a.Sort.Bits() > s.Bits():
		return c.Extract(a, s.Bits()-1, 0)
	case signed:
		return c.Sext(a, s)
	default:
		return c.Zext(a, s)
	}
}

// ---------- floating point ----------

func (c *TermCtx) fbin(op Op, a, b *Term) *Term {
	if a.Sort != b.Sort {
		panic("fp sort mismatch")
	}
	if a.IsConst() && b.IsConst() {
		if a.Sort == SFP64 {
			x, y := a.F64(), b.F64()
			switch op {
			case OFAdd:
				return ConstF64(x + y)
			case OFSub:
				return ConstF64(x - y)
			case OFMul:
				return ConstF64(x * y)
			case OFDiv:
				return ConstF64(x / y)
			}
		} else {
			x, y := a.F32(), b.F32()
			switch op {
			case OFAdd:
				return ConstF32(x + y)
			case OFSub:
				return ConstF32(x - y)
			case OFMul:
				return ConstF32(x * y)
			case OFDiv:
				return ConstF32(x / y)
			}
		}
	}
	return c.mk(op, a.Sort, 0, 0, "", a, b)
}

func (c *TermCtx) FAdd(a, b *Term) *Term { return c.fbin(OFAdd, a, b) }
func (c *TermCtx) FSub(a, b *Term) *Term { return c.fbin(OFSub, a, b) }
func (c *TermCtx) FMul(a, b *Term) *Term { return c.fbin(OFMul, a, b) }
func (c *TermCtx) FDiv(a, b *Term) *Term { return c.fbin(OFDiv, a, b) }

func fval(a *Term) float64 {
	if a.Sort == SFP64 {
		return a.F64()
	}
	return float64(a.F32())
}

func fconst(s Sort, f float64) *Term {
	if s == SFP64 {
		return ConstF64(f)
	}
	return ConstF32(float32(f))
}

func (c *TermCtx) fcmp(op Op, a, b *Term) *Term {
	if a.IsConst() && b.IsConst() {
		x, y := fval(a), fval(b)
		switch op {
		case OFEq:
			return Bool(x == y)
		case OFLt:
			return Bool(x < y)
		case OFLe:
			return Bool(x <= y)
		}
	}
	return c.mk(op, SBool, 0, 0, "", a, b)
}

func (c *TermCtx) FEq(a, b *Term) *Term { return c.fcmp(OFEq, a, b) }
func (c *TermCtx) FLt(a, b *Term) *Term { return c.fcmp(OFLt, a, b) }
func (c *TermCtx) FLe(a, b *Term) *Term { return c.fcmp(OFLe, a, b) }

func (c *TermCtx) FNeg(a *Term) *Term {
	if a.IsConst() {
		return &Term{Op: OConst, Sort: a.Sort, C: a.C ^ (uint64(1) << uint(a.Sort.Bits()-1))}
	}
	return c.mk(OFNeg, a.Sort, 0, 0, "", a)
}

func (c *TermCtx) FAbs(a *Term) *Term {
	if a.IsConst() {
		return &Term{Op: OConst, Sort: a.Sort, C: a.C &^ (uint64(1) << uint(a.Sort.Bits()-1))}
	}
	return c.mk(OFAbs, a.Sort, 0, 0, "", a)
}

func (c *TermCtx) FSqrt(a *Term) *Term {
	if a.IsConst() {
		return fconst(a.Sort, math.Sqrt(fval(a)))
	}
	return c.mk(OFSqrt, a.Sort, 0, 0, "", a)
}

func (c *TermCtx) FIsNaN(a *Term) *Term {
	if a.IsConst() {
		return Bool(math.IsNaN(fval(a)))
	}
	return c.mk(OFIsNaN, SBool, 0, 0, "", a)
}

func (c *TermCtx) FIsInf(a *Term) *Term {
	if a.IsConst() {
		return Bool(math.IsInf(fval(a), 0))
	}
	return c.mk(OFIsInf, SBool, 0, 0, "", a)
}

const (
	RNE = 0
	RTZ = 1
	RTN = 2
	RTP = 3
	RNA = 4
)

func (c *TermCtx) FRound(a *Term, mode int) *Term {
	if a.IsConst() {
		x := fval(a)
		switch mode {
		case RNE:
			return fconst(a.Sort, math.RoundToEven(x))
		case RTZ:
			return fconst(a.Sort, math.Trunc(x))
		case RTN:
			return fconst(a.Sort, math.Floor(x))
		case RTP:
			return fconst(a.Sort, math.Ceil(x))
		case RNA:
			return fconst(a.Sort, math.Round(x))
		}
	}
	return c.mk(OFRound, a.Sort, mode, 0, "", a)
}

// FToSBV converts with truncation; out-of-range / NaN give the amd64 "integer indefinite" value.
func (c *TermCtx) FToSBV(a *Term, s Sort) *Term {
	if a.IsConst() {
		x := fval(a)
		n := s.Bits()
		lim := math.Ldexp(1, n-1)
		if math.IsNaN(x) || x >= lim || x < -lim {
			if n == 64 || n == 32 {
				return Const(s, uint64(1)<<uint(n-1))
			}
			// narrower: amd64 converts via 32-bit then truncates
			v := int64(int32(math.MinInt32))
			if !(math.IsNaN(x) || x >= 2147483648 || x < -2147483648) {
				v = int64(int32(x))
			}
			return Const(s, uint64(v))
		}
		return Const(s, uint64(int64(x)))
	}
	return c.mk(OFToSBV, s, 0, 0, "", a)
}

func (c *TermCtx) FToUBV(a *Term, s Sort) *Term {
	if a.IsConst() {
		x := fval(a)
		if s == SBV64 {
			// amd64 semantics as compiled by gc
			return Const(s, uint64(x))
		}
		return Const(s, uint64(int64(x)))
	}
	return c.mk(OFToUBV, s, 0, 0, "", a)
}

func (c *TermCtx) FFromSBV(a *Term, s Sort) *Term {
	if a.IsConst() {
		return fconst(s, float64(a.Int()))
	}
	return c.mk(OFFromSBV, s, 0, 0, "", a)
}

func (c *TermCtx) FFromUBV(a *Term, s Sort) *Term {
	if a.IsConst() {
		return fconst(s, float64(a.C))
	}
	return c.mk(OFFromUBV, s, 0, 0, "", a)
}

func (c *TermCtx) FFromBits(a *Term) *Term {
	s := SFP64
	if a.Sort == SBV32 {
		s = SFP32
	} else if a.Sort != SBV64 {
		panic("FFromBits width")
	}
	if a.IsConst() {
		return &Term{Op: OConst, Sort: s, C: a.C}
	}
	return c.mk(OFFromBits, s, 0, 0, "", a)
}

func (c *TermCtx) FToFP(a *Term, s Sort) *Term {
	if a.Sort == s {
		return a
	}
	if a.IsConst() {
		return fconst(s, fval(a))
	}
	return c.mk(OFToFP, s, 0, 0, "", a)
}

// UF applies an uninterpreted function.
func (c *TermCtx) UF(name string, ret Sort, args ...*Term) *Term {
	if _, ok := c.ufs[name]; !ok {
		var sb strings.Builder
		fmt.Fprintf(&sb, "(declare-fun %s (", name)
		for i, a := range args {
			if i > 0 {
				sb.WriteByte(' ')
			}
			sb.WriteString(a.Sort.SMT())
		}
		fmt.Fprintf(&sb, ") %s)", ret.SMT())
		c.ufs[name] = sb.String()
	}
	return c.mk(OUF, ret, 0, 0, name, args...)
}

// ---------- printing ----------

func constSMT(t *Term) string {
	switch t.Sort {
	case SBool:
		if t.C == 1 {
			return "true"
		}
		return "false"
	case SBV8:
		return fmt.Sprintf("#x%02x", t.C)
	case SBV16:
		return fmt.Sprintf("#x%04x", t.C)
	case SBV32:
		return fmt.Sprintf("#x%08x", t.C)
	case SBV64:
		return fmt.Sprintf("#x%016x", t.C)
	case SFP64:
		return fmt.Sprintf("(fp #b%01b #b%011b #b%052b)", t.C>>63, (t.C>>52)&0x7ff, t.C&((1<<52)-1))
	case SFP32:
		return fmt.Sprintf("(fp #b%01b #b%08b #b%023b)", (t.C>>31)&1, (t.C>>23)&0xff, t.C&((1<<23)-1))
	}
	panic("bad const sort")
}

var rmNames = []string{"RNE", "RTZ", "RTN", "RTP", "RNA"}

var opNames = map[Op]string{
	ONot: "not", OAnd: "and", OOr: "or", OIte: "ite", OEq: "=",
	OAdd: "bvadd", OSub: "bvsub", OMul: "bvmul", OUDiv: "bvudiv", OSDiv: "bvsdiv", OURem: "bvurem", OSRem: "bvsrem",
	OBAnd: "bvand", OBOr: "bvor", OBXor: "bvxor", OBNot: "bvnot", ONeg: "bvneg", OShl: "bvshl", OLShr: "bvlshr", OAShr: "bvashr",
	OULt: "bvult", OULe: "bvule", OSLt: "bvslt", OSLe: "bvsle", OConcat: "concat",
	OFNeg: "fp.neg", OFAbs: "fp.abs", OFEq: "fp.eq", OFLt: "fp.lt", OFLe: "fp.leq", OFIsNaN: "fp.isNaN", OFIsInf: "fp.isInfinite",
}

// ref returns how a term is referenced inside another expression.
func ref(t *Term) string {
	if t.IsConst() {
		return constSMT(t)
	}
	if t.Op == OVar {
		return t.Name
	}
	return fmt.Sprintf("t%d", t.id)
}

func fpParams(s Sort) string {
	if s == SFP64 {
		return "11 53"
	}
	return "8 24"
}

// body returns the defining expression of a non-const, non-var term (children by reference).
func body(t *Term) string {
	a := func(i int) string { return ref(t.A[i]) }
	switch t.Op {
	case ONot, OBNot, ONeg, OFNeg, OFAbs, OFIsNaN, OFIsInf:
		return fmt.Sprintf("(%s %s)", opNames[t.Op], a(0))
	case OAnd, OOr, OEq, OAdd, OSub, OMul, OUDiv, OSDiv, OURem, OSRem, OBAnd, OBOr, OBXor, OShl, OLShr, OAShr,
		OULt, OULe, OSLt, OSLe, OConcat, OFEq, OFLt, OFLe:
		return fmt.Sprintf("(%s %s %s)", opNames[t.Op], a(0), a(1))
	case OIte:
		return fmt.Sprintf("(ite %s %s %s)", a(0), a(1), a(2))
	case OExtract:
		return fmt.Sprintf("((_ extract %d %d) %s)", t.P1, t.P2, a(0))
	case OZext:
		return fmt.Sprintf("((_ zero_extend %d) %s)", t.Sort.Bits()-t.A[0].Sort.Bits(), a(0))
	case OSext:
		return fmt.Sprintf("((_ sign_extend %d) %s)", t.Sort.Bits()-t.A[0].Sort.Bits(), a(0))
	case OFAdd:
		return fmt.Sprintf("(fp.add RNE %s %s)", a(0), a(1))
	case OFSub:
		return fmt.Sprintf("(fp.sub RNE %s %s)", a(0), a(1))
	case OFMul:
		return fmt.Sprintf("(fp.mul RNE %s %s)", a(0), a(1))
	case OFDiv:
		return fmt.Sprintf("(fp.div RNE %s %s)", a(0), a(1))
	case OFSqrt:
		return fmt.Sprintf("(fp.sqrt RNE %s)", a(0))
	case OFRound:
		return fmt.Sprintf("(fp.roundToIntegral %s %s)", rmNames[t.P1], a(0))
	case OFToSBV:
		n := t.Sort.Bits()
		x := t.A[0]
		lim := fconst(x.Sort, math.Ldexp(1, n-1))
		nlim := fconst(x.Sort, -math.Ldexp(1, n-1))
		// in range: -2^(n-1) <= trunc(x) < 2^(n-1)  <=>  x > -2^(n-1)-1 && x < 2^(n-1); use x>=-lim conservative+exact for n>=32 w/ fp64 when n=64 (since -2^63-1 not representable)
		indef := Const(t.Sort, uint64(1)<<uint(n-1))
		if n < 32 {
			// via 32-bit conversion then truncation
			return fmt.Sprintf("((_ extract %d 0) (ite (and (fp.lt %s %s) (fp.gt %s %s)) ((_ fp.to_sbv 32) RTZ %s) #x80000000))",
				n-1, a(0), constSMT(fconst(x.Sort, 2147483648)), a(0), constSMT(fconst(x.Sort, -2147483649)), a(0))
		}
		lo := fmt.Sprintf("(fp.geq %s %s)", a(0), constSMT(nlim))
		if n == 32 && x.Sort == SFP64 {
			lo = fmt.Sprintf("(fp.gt %s %s)", a(0), constSMT(fconst(x.Sort, -2147483649)))
		}
		return fmt.Sprintf("(ite (and (fp.lt %s %s) %s) ((_ fp.to_sbv %d) RTZ %s) %s)", a(0), constSMT(lim), lo, n, a(0), constSMT(indef))
	case OFToUBV:
		n := t.Sort.Bits()
		// gc on amd64: for uint64: if x < 2^63 { int64(x) } else { int64(x-2^63) ^ signbit }; model simply, in-range exact
		x := t.A[0]
		if n == 64 {
			two63 := constSMT(fconst(x.Sort, 9223372036854775808.0))
			sb := func(e string) string {
				return fmt.Sprintf("(ite (and (fp.lt %s %s) (fp.geq %s %s)) ((_ fp.to_sbv 64) RTZ %s) #x8000000000000000)", e, two63, e, constSMT(fconst(x.Sort, -9223372036854775808.0)), e)
			}
			return fmt.Sprintf("(ite (fp.lt %s %s) %s (bvxor %s #x8000000000000000))", a(0), two63, sb(a(0)), sb(fmt.Sprintf("(fp.sub RNE %s %s)", a(0), two63)))
		}
		// narrower unsigned: convert via int64 and truncate
		e := a(0)
		return fmt.Sprintf("((_ extract %d 0) (ite (and (fp.lt %s %s) (fp.geq %s %s)) ((_ fp.to_sbv 64) RTZ %s) #x8000000000000000))", n-1,
			e, constSMT(fconst(x.Sort, 9223372036854775808.0)), e, constSMT(fconst(x.Sort, -9223372036854775808.0)), e)
	case OFFromSBV:
		return fmt.Sprintf("((_ to_fp %s) RNE %s)", fpParams(t.Sort), a(0))
	case OFFromUBV:
		return fmt.Sprintf("((_ to_fp_unsigned %s) RNE %s)", fpParams(t.Sort), a(0))
	case OFFromBits:
		return fmt.Sprintf("((_ to_fp %s) %s)", fpParams(t.Sort), a(0))
	case OFToFP:
		return fmt.Sprintf("((_ to_fp %s) RNE %s)", fpParams(t.Sort), a(0))
	case OUF:
		var sb strings.Builder
		sb.WriteByte('(')
		sb.WriteString(t.Name)
		for i := range t.A {
			sb.WriteByte(' ')
			sb.WriteString(a(i))
		}
		sb.WriteByte(')')
		return sb.String()
	}
	panic(fmt.Sprintf("body: op %d", t.Op))
}

// Eval evaluates a term under an assignment of variables (by name) — used to double check models
// and to decode replay values. Returns (value, ok); ok=false when it meets a UF or unsupported op.
func EvalTerm(t *Term, env map[string]uint64, memo map[*Term]uint64) (uint64, bool) {
	if t.IsConst() {
		return t.C, true
	}
	if v, ok := memo[t]; ok {
		return v, true
	}
	if t.Op == OVar {
		v, ok := env[t.Name]
		if !ok {
			return 0, false
		}
		return v & mask(t.Sort), true
	}
	var av [3]uint64
	for i, a := range t.A {
		if i >= 3 {
			return 0, false
		}
		v, ok := EvalTerm(a, env, memo)
		if !ok {
			return 0, false
		}
		av[i] = v
	}
	// rebuild using constant folding of constructors
	tc := NewTermCtx()
	var args []*Term
	for i, a := range t.A {
		args = append(args, &Term{Op: OConst, Sort: a.Sort, C: av[i]})
	}
	var r *Term
	switch t.Op {
	case ONot:
		r = tc.Not(args[0])
	case OAnd:
		r = tc.And(args[0], args[1])
	case OOr:
		r = tc.Or(args[0], args[1])
	case OIte:
		r = tc.Ite(args[0], args[1], args[2])
	case OEq:
		r = tc.Eq(args[0], args[1])
	case OAdd, OSub, OMul, OUDiv, OSDiv, OURem, OSRem, OBAnd, OBOr, OBXor, OShl, OLShr, OAShr:
		r = tc.bin(t.Op, args[0], args[1])
	case OBNot:
		r = tc.BNot(args[0])
	case ONeg:
		r = tc.Neg(args[0])
	case OULt, OULe, OSLt, OSLe:
		r = tc.cmp(t.Op, args[0], args[1])
	case OExtract:
		r = tc.Extract(args[0], t.P1, t.P2)
	case OZext:
		r = tc.Zext(args[0], t.Sort)
	case OSext:
		r = tc.Sext(args[0], t.Sort)
	case OFAdd, OFSub, OFMul, OFDiv:
		r = tc.fbin(t.Op, args[0], args[1])
	case OFEq, OFLt, OFLe:
		r = tc.fcmp(t.Op, args[0], args[1])
	case OFNeg:
		r = tc.FNeg(args[0])
	case OFAbs:
		r = tc.FAbs(args[0])
	case OFSqrt:
		r = tc.FSqrt(args[0])
	case OFIsNaN:
		r = tc.FIsNaN(args[0])
	case OFIsInf:
		r = tc.FIsInf(args[0])
	case OFRound:
		r = tc.FRound(args[0], t.P1)
	case OFToSBV:
		r = tc.FToSBV(args[0], t.Sort)
	case OFToUBV:
		r = tc.FToUBV(args[0], t.Sort)
	case OFFromSBV:
		r = tc.FFromSBV(args[0], t.Sort)
	case OFFromUBV:
		r = tc.FFromUBV(args[0], t.Sort)
	case OFFromBits:
		r = tc.FFromBits(args[0])
	case OFToFP:
		r = tc.FToFP(args[0], t.Sort)
	default:
		return 0, false
	}
	if !r.IsConst() {
		return 0, false
	}
	memo[t] = r.C
	return r.C, true
}

var _ = bits.Len64
