package eng

import (
	"bytes"
	"encoding/json"
	"fmt"
	"go/types"
	"sort"
)

var (
	tEmptyIface = types.NewInterfaceType(nil, nil).Complete()
	tMapSI      = types.NewMap(types.Typ[types.String], tEmptyIface)
	tSliceI     = types.NewSlice(tEmptyIface)
)

// jsonUnsupported ends the path: the value cannot be encoded by the model.
func (ip *Interp) jsonUnsupported(what string) {
	ip.unsupported("json model: %s", what)
}

type jsonErr struct{ msg string }

// jsonEncode renders v (an interface value) as JSON text following encoding/json with
// HTML escaping on. Returns an error message for unsupported values (NaN/Inf).
func (ip *Interp) jsonEncode(v Value, depth int) (Str, *jsonErr) {
	if depth > 40 {
		ip.jsonUnsupported("nesting too deep")
	}
	switch x := v.(type) {
	case Iface:
		if x.T == nil {
			return MkStr("null"), nil
		}
		// encoding/json reports a value that contains itself (map or slice reached again on the
		// current descent) as an UnsupportedValueError
		var key interface{}
		switch c := x.V.(type) {
		case *Map:
			if c != nil {
				key = c
			}
		case Slice:
			if c.O != nil && len(c.A) > 0 {
				key = c.O
			}
		}
		if key != nil {
			for _, k := range ip.jsonPath {
				if k == key {
					return Str{}, &jsonErr{"json: unsupported value: encountered a cycle"}
				}
			}
			ip.jsonPath = append(ip.jsonPath, key)
			defer func() { ip.jsonPath = ip.jsonPath[:len(ip.jsonPath)-1] }()
		}
		return ip.jsonEncodeT(x.T, x.V, depth)
	}
	ip.jsonUnsupported(fmt.Sprintf("encode %T", v))
	return Str{}, nil
}

func (ip *Interp) hasMethod(t types.Type, name string) bool {
	ms := ip.P.Prog.MethodSets.MethodSet(t)
	for i := 0; i < ms.Len(); i++ {
		if ms.At(i).Obj().Name() == name {
			return true
		}
	}
	return false
}

func (ip *Interp) callMethod(t types.Type, recv Value, name string, args ...Value) Value {
	ms := ip.P.Prog.MethodSets.MethodSet(t)
	for i := 0; i < ms.Len(); i++ {
		if ms.At(i).Obj().Name() == name {
			f := ip.P.Prog.MethodValue(ms.At(i))
			return ip.CallFunc(f, append([]Value{recv}, args...)...)
		}
	}
	ip.unsupported("method %s not found on %s", name, t)
	return nil
}

func (ip *Interp) jsonEncodeT(t types.Type, v Value, depth int) (Str, *jsonErr) {
	if ip.hasMethod(t, "MarshalJSON") {
		if p, ok := v.(Ptr); ok && p.C == nil {
			return MkStr("null"), nil
		}
		r := ip.callMethod(t, v, "MarshalJSON").(Tuple)
		if e, _ := r[1].(Iface); e.T != nil {
			return Str{}, &jsonErr{"json: error calling MarshalJSON"}
		}
		return bytesToStr(r[0]), nil
	}
	switch u := t.Underlying().(type) {
	case *types.Basic:
		switch {
		case u.Kind() == types.Bool:
			b := ip.term(v)
			if ip.condT(b) {
				return MkStr("true"), nil
			}
			return MkStr("false"), nil
		case u.Info()&types.IsString != 0:
			return ip.jsonString(v.(Str)), nil
		case u.Info()&types.IsFloat != 0:
			f := ip.term(v)
			bad := ip.TC.Or(ip.TC.FIsNaN(f), ip.TC.FIsInf(f))
			if ip.condT(bad) {
				return Str{}, &jsonErr{"json: unsupported value"}
			}
			if f.IsConst() {
				b, _ := json.Marshal(f.F64())
				return MkStr(string(b)), nil
			}
			return ip.formatFloatStub(f, 'j', -1), nil
		case u.Info()&types.IsInteger != 0:
			n := ip.term(v)
			if !n.IsConst() {
				ip.jsonUnsupported("symbolic integer")
			}
			if u.Info()&types.IsUnsigned != 0 {
				return MkStr(fmt.Sprint(n.C)), nil
			}
			return MkStr(fmt.Sprint(n.Int())), nil
		}
	case *types.Interface:
		return ip.jsonEncode(v, depth+1)
	case *types.Pointer:
		p := ip.toPtr(v)
		if p.C == nil {
			return MkStr("null"), nil
		}
		return ip.jsonEncodeT(u.Elem(), copyVal(*p.C), depth+1)
	case *types.Slice:
		s := v.(Slice)
		if s.A == nil {
			return MkStr("null"), nil
		}
		if b, ok := u.Elem().Underlying().(*types.Basic); ok && b.Kind() == types.Uint8 {
			ip.jsonUnsupported("[]byte")
		}
		res := MkStr("[")
		for i, e := range s.A {
			if i > 0 {
				res = concatStr(res, MkStr(","))
			}
			es, err := ip.jsonEncodeT(u.Elem(), e, depth+1)
			if err != nil {
				return Str{}, err
			}
			res = concatStr(res, es)
		}
		return concatStr(res, MkStr("]")), nil
	case *types.Map:
		m, _ := v.(*Map)
		if m == nil {
			return MkStr("null"), nil
		}
		if b, ok := u.Key().Underlying().(*types.Basic); !ok || b.Info()&types.IsString == 0 {
			ip.jsonUnsupported("map with non-string keys")
		}
		// sort keys (insertion sort with symbolic comparisons)
		idx := make([]int, len(m.Keys))
		for i := range idx {
			idx[i] = i
		}
		for i := 1; i < len(idx); i++ {
			for j := i; j > 0; j-- {
				a, b := m.Keys[idx[j-1]].(Str), m.Keys[idx[j]].(Str)
				if ip.condT(ip.strLt(b, a, true)) {
					idx[j-1], idx[j] = idx[j], idx[j-1]
				} else {
					break
				}
			}
		}
		res := MkStr("{")
		for n, i := range idx {
			if n > 0 {
				res = concatStr(res, MkStr(","))
			}
			res = concatStr(res, ip.jsonString(m.Keys[i].(Str)))
			res = concatStr(res, MkStr(":"))
			es, err := ip.jsonEncodeT(u.Elem(), m.Vals[i], depth+1)
			if err != nil {
				return Str{}, err
			}
			res = concatStr(res, es)
		}
		return concatStr(res, MkStr("}")), nil
	case *types.Struct:
		if g, ok := ip.toGo(t, v); ok {
			b, err := json.Marshal(g)
			if err == nil {
				return MkStr(string(b)), nil
			}
		}
		ip.jsonUnsupported("struct " + typeString(t))
	case *types.Signature:
		return Str{}, &jsonErr{"json: unsupported type: " + typeString(t)}
	}
	ip.jsonUnsupported("type " + typeString(t))
	return Str{}, nil
}

// jsonString quotes a string the way encoding/json does (HTML escaping on). Symbolic bytes must
// be plain ASCII without characters that need escaping; other paths are unsupported.
func (ip *Interp) jsonString(s Str) Str {
	if s.Concrete() {
		var buf bytes.Buffer
		e := json.NewEncoder(&buf)
		e.Encode(s.S)
		b := buf.Bytes()
		return MkStr(string(b[:len(b)-1]))
	}
	tc := ip.TC
	out := []*Term{Const(SBV8, '"')}
	for i := 0; i < s.Len(); i++ {
		b := s.At(i)
		if b.IsConst() {
			c := byte(b.C)
			if c < 0x20 || c >= 0x80 || c == '"' || c == '\\' || c == '<' || c == '>' || c == '&' {
				ip.jsonUnsupported("escape in partly symbolic string")
			}
			out = append(out, b)
			continue
		}
		safe := tc.And(tc.ULe(Const(SBV8, 0x20), b), tc.ULt(b, Const(SBV8, 0x80)))
		for _, c := range []byte{'"', '\\', '<', '>', '&'} {
			safe = tc.And(safe, tc.Not(tc.Eq(b, Const(SBV8, uint64(c)))))
		}
		if !ip.condT(safe) {
			ip.jsonUnsupported("symbolic byte needing a JSON escape")
		}
		out = append(out, b)
	}
	out = append(out, Const(SBV8, '"'))
	return Str{Sym: out}
}

// fromGoJSON converts a decoded Go JSON value to an interpreter interface value.
func (ip *Interp) fromGoJSON(x interface{}) Value {
	switch x := x.(type) {
	case nil:
		return Iface{}
	case bool:
		return Iface{T: types.Typ[types.Bool], V: Bool(x)}
	case float64:
		return Iface{T: types.Typ[types.Float64], V: ConstF64(x)}
	case string:
		return Iface{T: types.Typ[types.String], V: MkStr(x)}
	case []interface{}:
		a := make([]Value, len(x))
		for i, e := range x {
			a[i] = ip.fromGoJSON(e)
		}
		return Iface{T: tSliceI, V: Slice{A: a, O: ip.newObj(tEmptyIface, "json")}}
	case map[string]interface{}:
		m := &Map{O: ip.newObj(tMapSI, "json"), KT: types.Typ[types.String], VT: tEmptyIface}
		keys := make([]string, 0, len(x))
		for k := range x {
			keys = append(keys, k)
		}
		sort.Strings(keys)
		for _, k := range keys {
			m.Keys = append(m.Keys, MkStr(k))
			m.Vals = append(m.Vals, ip.fromGoJSON(x[k]))
		}
		return Iface{T: tMapSI, V: m}
	}
	ip.jsonUnsupported(fmt.Sprintf("decoded %T", x))
	return nil
}

// jsonNormalise returns the value that decoding the JSON encoding of v yields (deep copy; every
// number a float64; callables become empty strings).
func (ip *Interp) jsonNormalise(v Value, depth int) Value {
	if depth > 40 {
		ip.jsonUnsupported("nesting too deep")
	}
	iv, ok := v.(Iface)
	if !ok {
		ip.jsonUnsupported(fmt.Sprintf("normalise %T", v))
	}
	if iv.T == nil {
		return Iface{}
	}
	if ip.hasMethod(iv.T, "MarshalJSON") {
		if p, ok := iv.V.(Ptr); ok && p.C == nil {
			return Iface{}
		}
		r := ip.callMethod(iv.T, iv.V, "MarshalJSON").(Tuple)
		s := bytesToStr(r[0])
		if s.Concrete() {
			var x interface{}
			if json.Unmarshal([]byte(s.S), &x) == nil {
				return ip.fromGoJSON(x)
			}
		}
		ip.jsonUnsupported("MarshalJSON result")
	}
	switch u := iv.T.Underlying().(type) {
	case *types.Basic:
		switch {
		case u.Kind() == types.Bool, u.Info()&types.IsString != 0:
			return Iface{T: types.Typ[u.Kind()], V: iv.V}
		case u.Kind() == types.Float64:
			return Iface{T: types.Typ[types.Float64], V: iv.V}
		case u.Info()&types.IsInteger != 0:
			return Iface{T: types.Typ[types.Float64], V: ip.conv(types.Typ[types.Float64], iv.T, iv.V)}
		case u.Kind() == types.Float32:
			return Iface{T: types.Typ[types.Float64], V: ip.TC.FToFP(ip.term(iv.V), SFP64)}
		}
	case *types.Pointer:
		p := ip.toPtr(iv.V)
		if p.C == nil {
			return Iface{}
		}
		return ip.jsonNormalise(Iface{T: u.Elem(), V: copyVal(*p.C)}, depth+1)
	case *types.Interface:
		return ip.jsonNormalise(iv.V, depth+1)
	case *types.Slice:
		s := iv.V.(Slice)
		if s.A == nil {
			return Iface{}
		}
		a := make([]Value, len(s.A))
		for i, e := range s.A {
			ev := e
			if _, isI := u.Elem().Underlying().(*types.Interface); !isI {
				ev = Iface{T: u.Elem(), V: e}
			}
			a[i] = ip.jsonNormalise(ev, depth+1)
		}
		return Iface{T: tSliceI, V: Slice{A: a, O: ip.newObj(tEmptyIface, "json")}}
	case *types.Map:
		m, _ := iv.V.(*Map)
		if m == nil {
			return Iface{}
		}
		nm := &Map{O: ip.newObj(tMapSI, "json"), KT: types.Typ[types.String], VT: tEmptyIface}
		for i, k := range m.Keys {
			ev := m.Vals[i]
			if _, isI := u.Elem().Underlying().(*types.Interface); !isI {
				ev = Iface{T: u.Elem(), V: ev}
			}
			nm.Keys = append(nm.Keys, k)
			nm.Vals = append(nm.Vals, ip.jsonNormalise(ev, depth+1))
		}
		return Iface{T: tMapSI, V: nm}
	}
	ip.jsonUnsupported("normalise type " + typeString(iv.T))
	return nil
}

// jsonDecode parses JSON text. Concrete text is parsed natively; symbolic text must be the output
// of an earlier jsonEncode on this path (round trip = normalised deep copy).
// jsonDecode: whole=true is json.Unmarshal (the text must be exactly one value), whole=false is the
// first Decode of a json.Decoder (reads one value and leaves the rest).
func (ip *Interp) jsonDecode(s Str, whole bool) (Value, bool) {
	if s.Concrete() {
		var x interface{}
		if whole {
			if err := json.Unmarshal([]byte(s.S), &x); err != nil {
				return nil, false
			}
			return ip.fromGoJSON(x), true
		}
		d := json.NewDecoder(bytes.NewReader([]byte(s.S)))
		if err := d.Decode(&x); err != nil {
			return nil, false
		}
		return ip.fromGoJSON(x), true
	}
	if ip.W != nil && ip.W.memo != nil {
		if v, ok := ip.W.memo["json:"+strKey(s)]; ok {
			return ip.jsonNormalise(v, 0), true
		}
	}
	ip.jsonUnsupported("decoding symbolic text that was not produced by the encoder model")
	return nil, false
}

func (ip *Interp) jsonRemember(s Str, v Value) {
	if ip.W == nil || s.Concrete() {
		return
	}
	if ip.W.memo == nil {
		ip.W.memo = map[string]Value{}
	}
	ip.W.memo["json:"+strKey(s)] = v
}

func (ip *Interp) jsonError(msg string) Value { return ip.errorValue(msg) }

type jsonEncoder struct{ w Value }
type jsonDecoder struct{ src Str }

func registerJSON(reg func(string, func(*Interp, []Value) Value)) {
	bufOf := func(ip *Interp, v Value) (Struct, *Obj) {
		p := ip.toPtr(v)
		if p.C == nil {
			ip.rtPanic("invalid memory address or nil pointer dereference")
		}
		return (*p.C).(Struct), p.O
	}
	bufAppend := func(ip *Interp, recv Value, s Str) {
		b, o := bufOf(ip, recv)
		old, _ := b[0].(Slice)
		na := append([]Value(nil), old.A...)
		for _, t := range s.Bytes() {
			na = append(na, t)
		}
		ip.setCell(&b[0], o, Slice{A: na, O: ip.newObj(types.Typ[types.Uint8], "bytes.Buffer")})
	}
	reg("(*bytes.Buffer).String", func(ip *Interp, a []Value) Value {
		if p := ip.toPtr(a[0]); p.C == nil {
			return MkStr("<nil>")
		}
		b, _ := bufOf(ip, a[0])
		sl, _ := b[0].(Slice)
		off := int(ip.term(b[1]).Int())
		if sl.A == nil {
			return Str{}
		}
		return bytesToStr(Slice{A: sl.A[off:]})
	})
	reg("(*bytes.Buffer).Bytes", func(ip *Interp, a []Value) Value {
		b, _ := bufOf(ip, a[0])
		sl, _ := b[0].(Slice)
		return sl
	})
	reg("(*bytes.Buffer).WriteString", func(ip *Interp, a []Value) Value {
		bufAppend(ip, a[0], a[1].(Str))
		return Tuple{i64(int64(a[1].(Str).Len())), Iface{}}
	})
	reg("(*bytes.Buffer).Write", func(ip *Interp, a []Value) Value {
		s := bytesToStr(a[1])
		bufAppend(ip, a[0], s)
		return Tuple{i64(int64(s.Len())), Iface{}}
	})
	reg("(*bytes.Buffer).WriteByte", func(ip *Interp, a []Value) Value {
		bufAppend(ip, a[0], Str{Sym: []*Term{ip.term(a[1])}})
		return Iface{}
	})
	reg("(*bytes.Buffer).Len", func(ip *Interp, a []Value) Value {
		b, _ := bufOf(ip, a[0])
		sl, _ := b[0].(Slice)
		return i64(int64(len(sl.A)) - ip.term(b[1]).Int())
	})
	reg("encoding/json.NewEncoder", func(ip *Interp, a []Value) Value { return Opaque{V: &jsonEncoder{w: a[0]}} })
	reg("(*encoding/json.Encoder).Encode", func(ip *Interp, a []Value) Value {
		enc := a[0].(Opaque).V.(*jsonEncoder)
		s, err := ip.jsonEncode(a[1], 0)
		if err != nil {
			return ip.jsonError(err.msg)
		}
		ip.jsonRemember(s, a[1])
		w := enc.w.(Iface)
		bufAppend(ip, w.V, concatStr(s, MkStr("\n")))
		return Iface{}
	})
	reg("(*encoding/json.Encoder).SetEscapeHTML", func(ip *Interp, a []Value) Value { return nil })
	reg("encoding/json.Marshal", func(ip *Interp, a []Value) Value {
		s, err := ip.jsonEncode(a[0], 0)
		if err != nil {
			return Tuple{Slice{}, ip.jsonError(err.msg)}
		}
		ip.jsonRemember(s, a[0])
		return Tuple{ip.strToBytes(s), Iface{}}
	})
	storeDecoded := func(ip *Interp, dst Value, v Value) {
		d, ok := dst.(Iface)
		if !ok || d.T == nil {
			ip.jsonUnsupported("decode target")
		}
		pt, ok := d.T.Underlying().(*types.Pointer)
		if !ok {
			ip.jsonUnsupported("decode target not a pointer")
		}
		if _, isI := pt.Elem().Underlying().(*types.Interface); !isI {
			ip.jsonUnsupported("decode target element " + typeString(pt.Elem()))
		}
		ip.store(pt.Elem(), d.V, v)
	}
	reg("encoding/json.Unmarshal", func(ip *Interp, a []Value) Value {
		s := bytesToStr(a[0])
		v, ok := ip.jsonDecode(s, true)
		if !ok {
			return ip.jsonError("invalid JSON")
		}
		storeDecoded(ip, a[1], v)
		return Iface{}
	})
	reg("encoding/json.NewDecoder", func(ip *Interp, a []Value) Value {
		r := a[0].(Iface)
		// *strings.Reader{s string, i int64, prevRune int}
		p := ip.toPtr(r.V)
		st, ok := (*p.C).(Struct)
		if !ok {
			ip.jsonUnsupported("decoder source")
		}
		s, ok := st[0].(Str)
		if !ok {
			ip.jsonUnsupported("decoder source")
		}
		return Opaque{V: &jsonDecoder{src: s}}
	})
	reg("(*encoding/json.Decoder).Decode", func(ip *Interp, a []Value) Value {
		d := a[0].(Opaque).V.(*jsonDecoder)
		src := d.src
		// strip a trailing newline added by Encoder / TrimSpace differences
		v, ok := ip.jsonDecode(src, false)
		if !ok {
			return ip.jsonError("invalid JSON")
		}
		storeDecoded(ip, a[1], v)
		return Iface{}
	})
}
