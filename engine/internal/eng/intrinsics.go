package eng

import (
	"fmt"
	"go/types"
	"math"
	"regexp"
	"strconv"
	"strings"

	"golang.org/x/tools/go/ssa"
)

var noopNative = &Native{Name: "noop", Fn: func(ip *Interp, args []Value) Value { return nil }}

func (ip *Interp) lookupIntrinsic(fn *ssa.Function) *Native {
	if n, ok := ip.intrCache[fn]; ok {
		return n
	}
	n := ip.findIntrinsic(fn)
	ip.intrCache[fn] = n
	if n == nil && fn.Blocks != nil {
		if ip.W != nil {
			ip.W.ex.noteFunc(fn)
		}
	}
	return n
}

func (ex *Explorer) noteFunc(fn *ssa.Function) {
	ex.mu.Lock()
	ex.P.FuncsEncoded[fn.String()] = true
	ex.mu.Unlock()
}

func (ip *Interp) findIntrinsic(fn *ssa.Function) *Native {
	if fn.Pkg != nil && fn.Name() == "init" && fn.Pkg.Func("init") == fn {
		if !ip.initAllowed(fn.Pkg) {
			return noopNative
		}
		ip.initDone[fn.Pkg] = true
		return nil
	}
	if fn.Pkg != nil && strings.HasPrefix(fn.Name(), "verif") && strings.HasPrefix(fn.Pkg.Pkg.Path(), ip.P.RepoPrefix) {
		if n, ok := ip.P.intrinsics["verif:"+fn.Name()]; ok {
			return n
		}
	}
	name := fn.String()
	if target, ok := ip.P.Overrides[name]; ok {
		if hf := ip.P.FindHarness(target); hf != nil {
			return &Native{Name: "override:" + name, Fn: func(ip *Interp, args []Value) Value {
				return ip.callSSAPlain(nil, 0, hf, args, nil)
			}}
		}
	}
	if n, ok := ip.P.intrinsics[name]; ok {
		return n
	}
	// generic instantiations: strip type arguments
	if i := strings.IndexByte(name, '['); i > 0 {
		if n, ok := ip.P.intrinsics[name[:i]]; ok {
			return n
		}
	}
	return nil
}

func goStr(v Value) (string, bool) {
	s, ok := v.(Str)
	if !ok || !s.Concrete() {
		return "", false
	}
	return s.S, true
}

func i64(v int64) *Term { return Const(SBV64, uint64(v)) }

func (ip *Interp) errorValue(msg string) Value {
	// *errors.errorString
	ep := ip.P.ByPath["errors"]
	t := ep.Type("errorString").Object().Type()
	c := new(Value)
	*c = Struct{MkStr(msg)}
	return Iface{T: types.NewPointer(t), V: Ptr{C: c, O: ip.newObj(t, "error")}}
}

// toGo converts a concrete interpreter value with static/dynamic type t into a Go value for native
// formatting. ok=false if not representable.
func (ip *Interp) toGo(t types.Type, v Value) (interface{}, bool) {
	switch v := v.(type) {
	case Iface:
		if v.T == nil {
			return nil, true
		}
		return ip.toGo(v.T, v.V)
	case Str:
		if !v.Concrete() {
			return nil, false
		}
		return v.S, true
	case *Term:
		if !v.IsConst() {
			return nil, false
		}
		if t != nil {
			if b, ok := t.Underlying().(*types.Basic); ok {
				switch b.Kind() {
				case types.Int:
					return int(v.Int()), true
				case types.Int8:
					return int8(v.Int()), true
				case types.Int16:
					return int16(v.Int()), true
				case types.Int32:
					return int32(v.Int()), true
				case types.Int64:
					return v.Int(), true
				case types.Uint:
					return uint(v.C), true
				case types.Uint8:
					return uint8(v.C), true
				case types.Uint16:
					return uint16(v.C), true
				case types.Uint32:
					return uint32(v.C), true
				case types.Uint64, types.Uintptr:
					return v.C, true
				}
			}
		}
		switch v.Sort {
		case SBool:
			return v.C == 1, true
		case SFP64:
			return v.F64(), true
		case SFP32:
			return v.F32(), true
		}
		return v.Int(), true
	case Slice:
		if v.A == nil {
			return nil, false
		}
		var et types.Type
		if t != nil {
			if st, ok := t.Underlying().(*types.Slice); ok {
				et = st.Elem()
			}
		}
		if et != nil {
			if b, ok := et.Underlying().(*types.Basic); ok && b.Kind() == types.Uint8 {
				bs := make([]byte, len(v.A))
				for i, x := range v.A {
					xt := x.(*Term)
					if !xt.IsConst() {
						return nil, false
					}
					bs[i] = byte(xt.C)
				}
				return bs, true
			}
		}
		out := make([]interface{}, len(v.A))
		for i, x := range v.A {
			g, ok := ip.toGo(et, x)
			if !ok {
				return nil, false
			}
			out[i] = g
		}
		return out, true
	case *Map:
		if v == nil {
			return map[string]interface{}(nil), true
		}
		out := map[string]interface{}{}
		for i, k := range v.Keys {
			ks, ok := goStr(k)
			if !ok {
				return nil, false
			}
			g, ok := ip.toGo(v.VT, v.Vals[i])
			if !ok {
				return nil, false
			}
			out[ks] = g
		}
		return out, true
	}
	return nil, false
}

// stringOf renders value v (of type t) the way %v / %s would, calling Error()/String() methods through
// the interpreter. Returns a Str (possibly symbolic).
func (ip *Interp) stringOf(t types.Type, v Value, verb byte) (Str, bool) {
	if iv, ok := v.(Iface); ok {
		if iv.T == nil {
			return MkStr("<nil>"), true
		}
		return ip.stringOf(iv.T, iv.V, verb)
	}
	if t != nil && (verb == 'v' || verb == 's' || verb == 'q') {
		for _, mname := range []string{"Error", "String"} {
			ms := ip.P.Prog.MethodSets.MethodSet(t)
			for i := 0; i < ms.Len(); i++ {
				sel := ms.At(i)
				if sel.Obj().Name() == mname {
					sig := sel.Type().(*types.Signature)
					if sig.Params().Len() == 0 && sig.Results().Len() == 1 {
						if f := ip.P.Prog.MethodValue(sel); f != nil {
							if p, isPtr := v.(Ptr); isPtr && p.C == nil {
								return MkStr("<nil>"), true
							}
							r := ip.CallFunc(f, v)
							if s, ok := r.(Str); ok {
								return s, true
							}
						}
					}
				}
			}
		}
	}
	if s, ok := v.(Str); ok && (verb == 'v' || verb == 's') {
		return s, true
	}
	g, ok := ip.toGo(t, v)
	if !ok {
		return Str{}, false
	}
	return MkStr(fmt.Sprintf("%"+string(verb), g)), true
}

// sprintf implements fmt.Sprintf piecewise so that symbolic strings can flow through %s/%v.
func (ip *Interp) sprintf(format string, args []Value) Str {
	res := Str{}
	argi := 0
	i := 0
	for i < len(format) {
		j := strings.IndexByte(format[i:], '%')
		if j < 0 {
			res = concatStr(res, MkStr(format[i:]))
			break
		}
		res = concatStr(res, MkStr(format[i:i+j]))
		i += j
		// parse verb
		k := i + 1
		for k < len(format) && strings.IndexByte("+-# 0123456789.*[]", format[k]) >= 0 {
			k++
		}
		if k >= len(format) {
			res = concatStr(res, MkStr("%!(NOVERB)"))
			break
		}
		verb := format[k]
		spec := format[i : k+1]
		i = k + 1
		if verb == '%' {
			res = concatStr(res, MkStr("%"))
			continue
		}
		if argi >= len(args) {
			res = concatStr(res, MkStr("%!"+string(verb)+"(MISSING)"))
			continue
		}
		a := args[argi]
		argi++
		if spec == "%"+string(verb) {
			if s, ok := ip.stringOf(nil, a, verb); ok {
				if verb == 'q' && s.Concrete() {
					s = MkStr(strconv.Quote(s.S))
				}
				res = concatStr(res, s)
				continue
			}
		} else if g, ok := ip.toGo(nil, a); ok {
			res = concatStr(res, MkStr(fmt.Sprintf(spec, g)))
			continue
		}
		// opaque piece
		res = concatStr(res, MkStr("<?>"))
	}
	return res
}

func sliceArgs(v Value) []Value {
	s, ok := v.(Slice)
	if !ok {
		return nil
	}
	return s.A
}

func (ip *Interp) strIndexTerm(s, sub Str) *Term {
	// first index of sub in s, or -1, as a term (no forking)
	tc := ip.TC
	n, m := s.Len(), sub.Len()
	if s.Concrete() && sub.Concrete() {
		return i64(int64(strings.Index(s.S, sub.S)))
	}
	if m > n {
		return i64(-1)
	}
	res := i64(-1)
	for i := n - m; i >= 0; i-- {
		eq := ip.strEq(s.Slice(i, i+m), sub)
		res = tc.Ite(eq, i64(int64(i)), res)
	}
	return res
}

func (ip *Interp) strLastIndexTerm(s, sub Str) *Term {
	tc := ip.TC
	n, m := s.Len(), sub.Len()
	if s.Concrete() && sub.Concrete() {
		return i64(int64(strings.LastIndex(s.S, sub.S)))
	}
	if m > n {
		return i64(-1)
	}
	res := i64(-1)
	for i := 0; i <= n-m; i++ {
		eq := ip.strEq(s.Slice(i, i+m), sub)
		res = tc.Ite(eq, i64(int64(i)), res)
	}
	return res
}

func bytesToStr(v Value) Str {
	sl := v.(Slice)
	bs := make([]*Term, len(sl.A))
	for i, x := range sl.A {
		bs[i] = x.(*Term)
	}
	return normStr(bs)
}

func (ip *Interp) strToBytes(s Str) Slice {
	bs := s.Bytes()
	a := make([]Value, len(bs))
	for i, b := range bs {
		a[i] = b
	}
	return Slice{A: a, O: ip.newObj(types.Typ[types.Uint8], "bytes")}
}

// validUTF8 returns a Bool term: s is valid UTF-8 (merged, forks only on widths).
func (ip *Interp) validUTF8(s Str) *Term {
	if s.Concrete() {
		return Bool(strings.ToValidUTF8(s.S, "") == s.S)
	}
	tc := ip.TC
	ok := tTrue
	for i := 0; i < s.Len(); {
		_, w := ip.decodeRune(s, i)
		if w == 1 {
			ok = tc.And(ok, tc.ULt(s.At(i), Const(SBV8, 0x80)))
		}
		i += w
	}
	return ok
}

func (ip *Interp) fpUnary(args []Value, f func(*Term) *Term) Value { return f(ip.term(args[0])) }

func buildIntrinsics() map[string]*Native {
	m := map[string]*Native{}
	reg := func(name string, fn func(ip *Interp, args []Value) Value) {
		m[name] = &Native{Name: name, Fn: fn}
	}

	// ---------- utf8 ----------
	reg("unicode/utf8.DecodeRuneInString", func(ip *Interp, a []Value) Value {
		s := a[0].(Str)
		if s.Len() == 0 {
			return Tuple{Const(SBV32, 0xFFFD), i64(0)}
		}
		r, w := ip.decodeRune(s, 0)
		return Tuple{r, i64(int64(w))}
	})
	reg("unicode/utf8.DecodeRune", func(ip *Interp, a []Value) Value {
		s := bytesToStr(a[0])
		if s.Len() == 0 {
			return Tuple{Const(SBV32, 0xFFFD), i64(0)}
		}
		r, w := ip.decodeRune(s, 0)
		return Tuple{r, i64(int64(w))}
	})
	reg("unicode/utf8.RuneCountInString", func(ip *Interp, a []Value) Value {
		s := a[0].(Str)
		n := 0
		for i := 0; i < s.Len(); n++ {
			_, w := ip.decodeRune(s, i)
			i += w
		}
		return i64(int64(n))
	})
	reg("unicode/utf8.RuneCount", func(ip *Interp, a []Value) Value {
		s := bytesToStr(a[0])
		n := 0
		for i := 0; i < s.Len(); n++ {
			_, w := ip.decodeRune(s, i)
			i += w
		}
		return i64(int64(n))
	})
	reg("unicode/utf8.ValidString", func(ip *Interp, a []Value) Value { return ip.validUTF8(a[0].(Str)) })
	reg("unicode/utf8.Valid", func(ip *Interp, a []Value) Value { return ip.validUTF8(bytesToStr(a[0])) })
	reg("unicode/utf8.RuneLen", func(ip *Interp, a []Value) Value {
		r := ip.term(a[0])
		tc := ip.TC
		c := func(v uint64) *Term { return Const(SBV32, v) }
		surr := tc.And(tc.SLe(c(0xD800), r), tc.SLe(r, c(0xDFFF)))
		return tc.Ite(tc.SLt(r, c(0)), i64(-1),
			tc.Ite(tc.SLt(r, c(0x80)), i64(1),
				tc.Ite(tc.SLt(r, c(0x800)), i64(2),
					tc.Ite(surr, i64(-1),
						tc.Ite(tc.SLt(r, c(0x10000)), i64(3),
							tc.Ite(tc.SLe(r, c(0x10FFFF)), i64(4), i64(-1)))))))
	})
	reg("unicode/utf8.ValidRune", func(ip *Interp, a []Value) Value {
		r := ip.term(a[0])
		tc := ip.TC
		c := func(v uint64) *Term { return Const(SBV32, v) }
		surr := tc.And(tc.SLe(c(0xD800), r), tc.SLe(r, c(0xDFFF)))
		return tc.And(tc.And(tc.SLe(c(0), r), tc.SLe(r, c(0x10FFFF))), tc.Not(surr))
	})

	// ---------- strings ----------
	reg("strings.Index", func(ip *Interp, a []Value) Value { return ip.strIndexTerm(a[0].(Str), a[1].(Str)) })
	reg("strings.LastIndex", func(ip *Interp, a []Value) Value { return ip.strLastIndexTerm(a[0].(Str), a[1].(Str)) })
	reg("strings.Contains", func(ip *Interp, a []Value) Value {
		return ip.TC.Not(ip.TC.Eq(ip.strIndexTerm(a[0].(Str), a[1].(Str)), i64(-1)))
	})
	reg("strings.IndexByte", func(ip *Interp, a []Value) Value {
		return ip.strIndexTerm(a[0].(Str), Str{Sym: []*Term{ip.term(a[1])}})
	})
	reg("strings.LastIndexByte", func(ip *Interp, a []Value) Value {
		return ip.strLastIndexTerm(a[0].(Str), Str{Sym: []*Term{ip.term(a[1])}})
	})
	reg("internal/bytealg.IndexByteString", func(ip *Interp, a []Value) Value {
		return ip.strIndexTerm(a[0].(Str), Str{Sym: []*Term{ip.term(a[1])}})
	})
	reg("internal/bytealg.IndexByte", func(ip *Interp, a []Value) Value {
		return ip.strIndexTerm(bytesToStr(a[0]), Str{Sym: []*Term{ip.term(a[1])}})
	})
	reg("internal/bytealg.IndexString", func(ip *Interp, a []Value) Value { return ip.strIndexTerm(a[0].(Str), a[1].(Str)) })
	reg("internal/bytealg.Equal", func(ip *Interp, a []Value) Value { return ip.strEq(bytesToStr(a[0]), bytesToStr(a[1])) })
	reg("bytes.Equal", func(ip *Interp, a []Value) Value { return ip.strEq(bytesToStr(a[0]), bytesToStr(a[1])) })
	reg("internal/bytealg.CountString", func(ip *Interp, a []Value) Value {
		s := a[0].(Str)
		c := ip.term(a[1])
		n := i64(0)
		for i := 0; i < s.Len(); i++ {
			n = ip.TC.Add(n, ip.TC.Ite(ip.TC.Eq(s.At(i), c), i64(1), i64(0)))
		}
		return n
	})
	reg("internal/bytealg.MakeNoZero", func(ip *Interp, a []Value) Value {
		n := ip.concInt(a[0], 0, 64)
		if n < 0 || n > 1<<22 {
			panic(pathEnd{Kind: "unwound", Msg: "huge allocation (MakeNoZero)" + ip.where()})
		}
		arr := make([]Value, n)
		for i := range arr {
			arr[i] = Const(SBV8, 0)
		}
		return Slice{A: arr, O: ip.newObj(types.Typ[types.Uint8], "MakeNoZero")}
	})
	reg("strings.HasPrefix", func(ip *Interp, a []Value) Value {
		s, p := a[0].(Str), a[1].(Str)
		if p.Len() > s.Len() {
			return tFalse
		}
		return ip.strEq(s.Slice(0, p.Len()), p)
	})
	reg("strings.HasSuffix", func(ip *Interp, a []Value) Value {
		s, p := a[0].(Str), a[1].(Str)
		if p.Len() > s.Len() {
			return tFalse
		}
		return ip.strEq(s.Slice(s.Len()-p.Len(), s.Len()), p)
	})
	reg("strings.Clone", func(ip *Interp, a []Value) Value { return a[0] })
	reg("internal/stringslite.Clone", func(ip *Interp, a []Value) Value { return a[0] })
	caseMap := func(name string, f func(string) string, lo, hi byte, delta int) {
		reg(name, func(ip *Interp, a []Value) Value {
			s := a[0].(Str)
			if s.Concrete() {
				return MkStr(f(s.S))
			}
			// symbolic: ASCII only (other paths are unsupported: Unicode case tables are the library's)
			tc := ip.TC
			out := make([]*Term, s.Len())
			for i := 0; i < s.Len(); i++ {
				b := s.At(i)
				if !ip.condT(tc.ULt(b, Const(SBV8, 0x80))) {
					ip.unsupported("%s on symbolic non-ASCII string", name)
				}
				in := tc.And(tc.ULe(Const(SBV8, uint64(lo)), b), tc.ULe(b, Const(SBV8, uint64(hi))))
				out[i] = tc.Ite(in, tc.Add(b, Const(SBV8, uint64(uint8(delta)))), b)
			}
			return normStr(out)
		})
	}
	caseMap("strings.ToUpper", strings.ToUpper, 'a', 'z', -32)
	caseMap("strings.ToLower", strings.ToLower, 'A', 'Z', 32)

	// strings.Builder
	builder := func(ip *Interp, v Value) (Struct, *Obj) {
		p := ip.toPtr(v)
		if p.C == nil {
			ip.rtPanic("invalid memory address or nil pointer dereference")
		}
		return (*p.C).(Struct), p.O
	}
	appendBuf := func(ip *Interp, b Struct, o *Obj, bs []*Term) {
		old, _ := b[1].(Slice)
		na := make([]Value, 0, len(old.A)+len(bs))
		na = append(na, old.A...)
		for _, t := range bs {
			na = append(na, t)
		}
		ip.setCell(&b[1], o, Slice{A: na, O: ip.newObj(types.Typ[types.Uint8], "builder")})
	}
	reg("(*strings.Builder).WriteString", func(ip *Interp, a []Value) Value {
		b, o := builder(ip, a[0])
		s := a[1].(Str)
		appendBuf(ip, b, o, s.Bytes())
		return Tuple{i64(int64(s.Len())), Iface{}}
	})
	reg("(*strings.Builder).WriteByte", func(ip *Interp, a []Value) Value {
		b, o := builder(ip, a[0])
		appendBuf(ip, b, o, []*Term{ip.term(a[1])})
		return Iface{}
	})
	reg("(*strings.Builder).WriteRune", func(ip *Interp, a []Value) Value {
		b, o := builder(ip, a[0])
		s := ip.encodeRune(ip.term(a[1]))
		appendBuf(ip, b, o, s.Bytes())
		return Tuple{i64(int64(s.Len())), Iface{}}
	})
	reg("(*strings.Builder).Write", func(ip *Interp, a []Value) Value {
		b, o := builder(ip, a[0])
		s := bytesToStr(a[1])
		appendBuf(ip, b, o, s.Bytes())
		return Tuple{i64(int64(s.Len())), Iface{}}
	})
	reg("(*strings.Builder).String", func(ip *Interp, a []Value) Value {
		b, _ := builder(ip, a[0])
		sl, _ := b[1].(Slice)
		if sl.A == nil {
			return Str{}
		}
		return bytesToStr(sl)
	})
	reg("(*strings.Builder).Len", func(ip *Interp, a []Value) Value {
		b, _ := builder(ip, a[0])
		sl, _ := b[1].(Slice)
		return i64(int64(len(sl.A)))
	})
	reg("(*strings.Builder).Grow", func(ip *Interp, a []Value) Value {
		n := ip.term(a[1])
		if n.IsConst() {
			if n.Int() < 0 {
				panic(&targetPanic{V: Iface{T: types.Typ[types.String], V: MkStr("strings.Builder.Grow: negative count")}, Site: ip.curFnName(), Msg: "strings.Builder.Grow: negative count"})
			}
			if n.Int() > 1<<46 {
				ip.rtPanic("makeslice: len out of range")
			}
			if n.Int() > 1<<24 {
				panic(pathEnd{Kind: "unwound", Msg: "huge allocation (strings.Builder.Grow)" + ip.where()})
			}
		}
		return nil
	})
	reg("(*strings.Builder).Reset", func(ip *Interp, a []Value) Value {
		b, o := builder(ip, a[0])
		ip.setCell(&b[1], o, Slice{})
		return nil
	})
	reg("unsafe.String", func(ip *Interp, a []Value) Value { ip.unsupported("unsafe.String"); return nil })

	// ---------- fmt ----------
	reg("fmt.Sprintf", func(ip *Interp, a []Value) Value {
		f, ok := goStr(a[0])
		if !ok {
			return MkStr("<fmt>")
		}
		return ip.sprintf(f, sliceArgs(a[1]))
	})
	reg("fmt.Errorf", func(ip *Interp, a []Value) Value {
		f, ok := goStr(a[0])
		msg := MkStr("<fmt>")
		if ok {
			msg = ip.sprintf(f, sliceArgs(a[1]))
		}
		ep := ip.P.ByPath["fmt"]
		t := ep.Type("wrapError").Object().Type()
		_ = t
		// model as *errors.errorString
		et := ip.P.ByPath["errors"].Type("errorString").Object().Type()
		c := new(Value)
		*c = Struct{msg}
		return Iface{T: types.NewPointer(et), V: Ptr{C: c, O: ip.newObj(et, "fmt.Errorf")}}
	})
	reg("fmt.Sprint", func(ip *Interp, a []Value) Value {
		res := Str{}
		args := sliceArgs(a[0])
		prevString := true
		for i, x := range args {
			s, ok := ip.stringOf(nil, x, 'v')
			if !ok {
				s = MkStr("<?>")
			}
			_, isStr := x.(Iface)
			isString := false
			if isStr {
				_, isString = x.(Iface).V.(Str)
			}
			if i > 0 && !isString && !prevString {
				res = concatStr(res, MkStr(" "))
			}
			prevString = isString
			res = concatStr(res, s)
		}
		return res
	})
	reg("fmt.Sprintln", func(ip *Interp, a []Value) Value {
		res := Str{}
		for i, x := range sliceArgs(a[0]) {
			s, ok := ip.stringOf(nil, x, 'v')
			if !ok {
				s = MkStr("<?>")
			}
			if i > 0 {
				res = concatStr(res, MkStr(" "))
			}
			res = concatStr(res, s)
		}
		return concatStr(res, MkStr("\n"))
	})
	reg("fmt.Println", func(ip *Interp, a []Value) Value { return Tuple{i64(0), Iface{}} })
	reg("fmt.Printf", func(ip *Interp, a []Value) Value { return Tuple{i64(0), Iface{}} })
	reg("fmt.Print", func(ip *Interp, a []Value) Value { return Tuple{i64(0), Iface{}} })

	// ---------- math ----------
	reg("math.Floor", func(ip *Interp, a []Value) Value { return ip.TC.FRound(ip.term(a[0]), RTN) })
	reg("math.Ceil", func(ip *Interp, a []Value) Value { return ip.TC.FRound(ip.term(a[0]), RTP) })
	reg("math.Trunc", func(ip *Interp, a []Value) Value { return ip.TC.FRound(ip.term(a[0]), RTZ) })
	reg("math.RoundToEven", func(ip *Interp, a []Value) Value { return ip.TC.FRound(ip.term(a[0]), RNE) })
	reg("math.Round", func(ip *Interp, a []Value) Value { return ip.TC.FRound(ip.term(a[0]), RNA) })
	reg("math.Abs", func(ip *Interp, a []Value) Value { return ip.TC.FAbs(ip.term(a[0])) })
	reg("math.Sqrt", func(ip *Interp, a []Value) Value { return ip.TC.FSqrt(ip.term(a[0])) })
	reg("math.IsNaN", func(ip *Interp, a []Value) Value { return ip.TC.FIsNaN(ip.term(a[0])) })
	reg("math.IsInf", func(ip *Interp, a []Value) Value {
		x := ip.term(a[0])
		sign := ip.term(a[1])
		tc := ip.TC
		pos := tc.And(tc.FIsInf(x), tc.FLt(ConstF64(0), x))
		neg := tc.And(tc.FIsInf(x), tc.FLt(x, ConstF64(0)))
		zero := Const(sign.Sort, 0)
		return tc.Or(tc.And(tc.SLe(zero, sign), pos), tc.And(tc.SLe(sign, zero), neg))
	})
	reg("math.Inf", func(ip *Interp, a []Value) Value {
		s := ip.term(a[0])
		return ip.TC.Ite(ip.TC.SLe(Const(s.Sort, 0), s), ConstF64(math.Inf(1)), ConstF64(math.Inf(-1)))
	})
	reg("math.NaN", func(ip *Interp, a []Value) Value { return ConstF64(math.NaN()) })
	reg("math.Float64frombits", func(ip *Interp, a []Value) Value { return ip.TC.FFromBits(ip.term(a[0])) })
	reg("math.Float64bits", func(ip *Interp, a []Value) Value {
		x := ip.term(a[0])
		if x.IsConst() {
			return Const(SBV64, x.C)
		}
		if x.Op == OFFromBits {
			return x.A[0]
		}
		// fresh bits constrained to denote x (NaN payload unconstrained)
		b := ip.W.freshVar(SBV64)
		ip.W.inputs = append(ip.W.inputs, Input{Kind: "aux", Vars: []*Term{b}})
		fb := ip.TC.FFromBits(b)
		c := ip.TC.Or(ip.TC.And(ip.TC.FIsNaN(x), ip.TC.FIsNaN(fb)), ip.TC.Eq(b, b))
		_ = c
		// equality of bit patterns: x == fb and same sign of zero, or both NaN
		same := ip.TC.mk(OEq, SBool, 0, 0, "", x, fb) // SMT '=' on FP is structural (NaN = NaN, +0 != -0)
		ip.W.addPC(same)
		return b
	})
	reg("math.Signbit", func(ip *Interp, a []Value) Value {
		x := ip.term(a[0])
		if x.IsConst() {
			return Bool(math.Signbit(x.F64()))
		}
		if x.Op == OFFromBits {
			return ip.TC.Eq(ip.TC.LShr(x.A[0], Const(SBV64, 63)), Const(SBV64, 1))
		}
		// derived float (NaN aside): negative, or a zero whose reciprocal is negative
		tc := ip.TC
		zero, one := ConstF64(0), ConstF64(1)
		return tc.Or(tc.FLt(x, zero), tc.And(tc.FEq(x, zero), tc.FLt(tc.FDiv(one, x), zero)))
	})
	conc2 := func(name string, f func(x, y float64) float64) {
		reg(name, func(ip *Interp, a []Value) Value {
			x, y := ip.term(a[0]), ip.term(a[1])
			if x.IsConst() && y.IsConst() {
				return ConstF64(f(x.F64(), y.F64()))
			}
			// uninterpreted
			return ip.TC.UF("uf_"+strings.ReplaceAll(name, ".", "_"), SFP64, x, y)
		})
	}
	conc2("math.Pow", math.Pow)
	reg("math.Nextafter", func(ip *Interp, a []Value) Value {
		x, y := ip.term(a[0]), ip.term(a[1])
		if x.IsConst() && y.IsConst() {
			return ConstF64(math.Nextafter(x.F64(), y.F64()))
		}
		if !y.IsConst() || !math.IsInf(y.F64(), 0) {
			return ip.TC.UF("uf_math_Nextafter", SFP64, x, y)
		}
		up := y.F64() > 0
		tc := ip.TC
		// bits of x: fresh b with x = to_fp(b) (structural equality; x is not NaN in the callers)
		var b *Term
		if x.Op == OFFromBits {
			b = x.A[0]
		} else {
			b = ip.W.freshVar(SBV64)
			ip.W.inputs = append(ip.W.inputs, Input{Kind: "aux", Vars: []*Term{b}})
			ip.W.addPC(ip.TC.mk(OEq, SBool, 0, 0, "", x, tc.FFromBits(b)))
		}
		one := Const(SBV64, 1)
		pos := tc.Eq(tc.LShr(b, Const(SBV64, 63)), Const(SBV64, 0))
		isZero := tc.FEq(x, ConstF64(0))
		var nb *Term
		if up {
			// x >= +0: bits+1 ; x < 0: bits-1 ; -0 -> smallest positive
			nb = tc.Ite(isZero, one, tc.Ite(pos, tc.Add(b, one), tc.Sub(b, one)))
		} else {
			nb = tc.Ite(isZero, Const(SBV64, 0x8000000000000001), tc.Ite(pos, tc.Sub(b, one), tc.Add(b, one)))
		}
		special := tc.Or(tc.FIsNaN(x), tc.FIsInf(x))
		return tc.Ite(special, x, tc.FFromBits(nb))
	})
	conc2("math.Copysign", math.Copysign)
	conc2("math.Max", math.Max)
	conc2("math.Min", math.Min)
	reg("math.Mod", func(ip *Interp, a []Value) Value {
		x, y := ip.term(a[0]), ip.term(a[1])
		if x.IsConst() && y.IsConst() {
			return ConstF64(math.Mod(x.F64(), y.F64()))
		}
		tc := ip.TC
		r := tc.UF("uf_fmod", SFP64, x, y)
		// axioms
		zero := ConstF64(0)
		nanCase := tc.Or(tc.Or(tc.FIsNaN(x), tc.FIsNaN(y)), tc.Or(tc.FIsInf(x), tc.FEq(y, zero)))
		ax1 := tc.Ite(nanCase, tc.FIsNaN(r),
			tc.And(tc.Not(tc.FIsNaN(r)),
				tc.And(tc.Or(tc.FIsInf(y), tc.FLt(tc.FAbs(r), tc.FAbs(y))),
					tc.And(tc.Or(tc.FEq(r, zero), tc.Eq(tc.FLt(r, zero), tc.FLt(x, zero))),
						tc.Or(tc.Not(tc.Or(tc.FIsInf(y), tc.FLt(tc.FAbs(x), tc.FAbs(y)))), tc.FEq(r, x))))))
		ip.W.addPC(ax1)
		// exact on integer-valued operands below 2^63: fmod is exact in IEEE arithmetic and equals
		// the integer remainder there
		lim := ConstF64(9223372036854775808.0)
		isInt := func(v *Term) *Term { return tc.FEq(v, tc.FRound(v, RTZ)) }
		small := func(v *Term) *Term { return tc.And(tc.FLt(v, lim), tc.FLe(tc.FNeg(lim), v)) }
		intCase := tc.And(tc.And(isInt(x), isInt(y)), tc.And(tc.And(small(x), small(y)), tc.Not(tc.FEq(y, zero))))
		xi, yi := tc.FToSBV(x, SBV64), tc.FToSBV(y, SBV64)
		ri := tc.SRem(xi, yi)
		ax2 := tc.Or(tc.Not(intCase), tc.FEq(r, tc.FFromSBV(ri, SFP64)))
		ip.W.addPC(ax2)
		if y.IsConst() && y.F64() == 2 {
			// exact for |x| < 2^53: x/2, trunc, *2 and the subtraction are all exact
			big := ConstF64(9007199254740992.0)
			exact := tc.FSub(x, tc.FMul(ConstF64(2), tc.FRound(tc.FDiv(x, ConstF64(2)), RTZ)))
			ip.W.addPC(tc.Or(tc.Not(tc.FLt(tc.FAbs(x), big)), tc.FEq(r, exact)))
		}
		return r
	})
	reg("math.Pow10", func(ip *Interp, a []Value) Value {
		n := ip.term(a[0])
		if n.IsConst() {
			return ConstF64(math.Pow10(int(n.Int())))
		}
		v := ip.W.ConcretizeRange(n, -30, 30)
		return ConstF64(math.Pow10(int(v)))
	})
	reg("math.Log10", func(ip *Interp, a []Value) Value {
		x := ip.term(a[0])
		if x.IsConst() {
			return ConstF64(math.Log10(x.F64()))
		}
		return ip.TC.UF("uf_log10", SFP64, x)
	})
	reg("math.Log", func(ip *Interp, a []Value) Value {
		x := ip.term(a[0])
		if x.IsConst() {
			return ConstF64(math.Log(x.F64()))
		}
		return ip.TC.UF("uf_log", SFP64, x)
	})
	reg("math.Modf", func(ip *Interp, a []Value) Value {
		x := ip.term(a[0])
		tc := ip.TC
		if x.IsConst() {
			i, f := math.Modf(x.F64())
			return Tuple{ConstF64(i), ConstF64(f)}
		}
		ipart := tc.FRound(x, RTZ)
		// frac = x - int (inf: frac = NaN per Go; NaN -> NaN)
		frac := tc.Ite(tc.FIsInf(x), ConstF64(math.NaN()), tc.FSub(x, ipart))
		return Tuple{ipart, frac}
	})

	// ---------- strconv (float side is native only) ----------
	reg("strconv.ParseFloat", func(ip *Interp, a []Value) Value {
		s, ok := goStr(a[0])
		if !ok {
			return ip.parseFloatStub(a[0].(Str))
		}
		f, err := strconv.ParseFloat(s, int(ip.term(a[1]).Int()))
		if err != nil {
			return Tuple{ConstF64(f), ip.numError("ParseFloat", s, err)}
		}
		return Tuple{ConstF64(f), Iface{}}
	})
	reg("strconv.FormatFloat", func(ip *Interp, a []Value) Value {
		x := ip.term(a[0])
		if !x.IsConst() {
			return ip.formatFloatStub(x, byte(ip.term(a[1]).C), int(ip.term(a[2]).Int()))
		}
		return MkStr(strconv.FormatFloat(x.F64(), byte(ip.term(a[1]).C), int(ip.term(a[2]).Int()), int(ip.term(a[3]).Int())))
	})
	reg("strconv.AppendFloat", func(ip *Interp, a []Value) Value {
		x := ip.term(a[1])
		var s Str
		if !x.IsConst() {
			s = ip.formatFloatStub(x, byte(ip.term(a[2]).C), int(ip.term(a[3]).Int()))
		} else {
			s = MkStr(strconv.FormatFloat(x.F64(), byte(ip.term(a[2]).C), int(ip.term(a[3]).Int()), int(ip.term(a[4]).Int())))
		}
		dst := a[0].(Slice)
		na := append([]Value(nil), dst.A...)
		for _, b := range s.Bytes() {
			na = append(na, b)
		}
		return Slice{A: na, O: ip.newObj(types.Typ[types.Uint8], "AppendFloat")}
	})
	reg("strconv.Quote", func(ip *Interp, a []Value) Value {
		s, ok := goStr(a[0])
		if !ok {
			return concatStr(concatStr(MkStr("\""), a[0].(Str)), MkStr("\""))
		}
		return MkStr(strconv.Quote(s))
	})

	// ---------- regexp ----------
	reg("regexp.MustCompile", func(ip *Interp, a []Value) Value {
		s, ok := goStr(a[0])
		if !ok {
			ip.unsupported("regexp.MustCompile on symbolic pattern")
		}
		re, err := regexp.Compile(s)
		if err != nil {
			panic(&targetPanic{V: Iface{T: types.Typ[types.String], V: MkStr("regexp: Compile: " + err.Error())}, Site: "regexp.MustCompile", Msg: err.Error()})
		}
		return Opaque{V: re}
	})
	reg("regexp.Compile", func(ip *Interp, a []Value) Value {
		s, ok := goStr(a[0])
		if !ok {
			return ip.regexpCompileStub(a[0].(Str))
		}
		re, err := regexp.Compile(s)
		if err != nil {
			return Tuple{Opaque{}, ip.errorValue(err.Error())}
		}
		return Tuple{Opaque{V: re}, Iface{}}
	})
	reg("(*regexp.Regexp).MatchString", func(ip *Interp, a []Value) Value {
		re := a[0].(Opaque).V.(*regexp.Regexp)
		s, ok := goStr(a[1])
		if !ok {
			ip.unsupported("regexp match on symbolic string")
		}
		return Bool(re.MatchString(s))
	})
	reg("(*regexp.Regexp).String", func(ip *Interp, a []Value) Value {
		if sr, ok := a[0].(Opaque).V.(*symRegexp); ok {
			return sr.pattern
		}
		re := a[0].(Opaque).V.(*regexp.Regexp)
		return MkStr(re.String())
	})
	reg("(*regexp.Regexp).ReplaceAllString", func(ip *Interp, a []Value) Value {
		re := a[0].(Opaque).V.(*regexp.Regexp)
		s, ok1 := goStr(a[1])
		r, ok2 := goStr(a[2])
		if !ok1 || !ok2 {
			ip.unsupported("regexp ReplaceAllString on symbolic string")
		}
		return MkStr(re.ReplaceAllString(s, r))
	})
	reg("(*regexp.Regexp).FindStringSubmatch", func(ip *Interp, a []Value) Value {
		re := a[0].(Opaque).V.(*regexp.Regexp)
		s, ok := goStr(a[1])
		if !ok {
			ip.unsupported("regexp FindStringSubmatch on symbolic string")
		}
		r := re.FindStringSubmatch(s)
		if r == nil {
			return Slice{}
		}
		arr := make([]Value, len(r))
		for i, x := range r {
			arr[i] = MkStr(x)
		}
		return Slice{A: arr, O: ip.newObj(types.Typ[types.String], "regexp")}
	})
	reg("(*regexp.Regexp).FindAllStringSubmatch", func(ip *Interp, a []Value) Value {
		re, _ := a[0].(Opaque).V.(*regexp.Regexp)
		s, ok := goStr(a[1])
		n := ip.term(a[2])
		if !ok || !n.IsConst() || re == nil {
			ip.unsupported("regexp FindAllStringSubmatch on symbolic input")
		}
		r := re.FindAllStringSubmatch(s, int(n.Int()))
		if r == nil {
			return Slice{}
		}
		outer := make([]Value, len(r))
		for i, mm := range r {
			inner := make([]Value, len(mm))
			for j, x := range mm {
				inner[j] = MkStr(x)
			}
			outer[i] = Slice{A: inner, O: ip.newObj(types.Typ[types.String], "regexp")}
		}
		return Slice{A: outer, O: ip.newObj(nil, "regexp")}
	})
	reg("(*regexp.Regexp).FindAllStringSubmatchIndex", func(ip *Interp, a []Value) Value {
		re, _ := a[0].(Opaque).V.(*regexp.Regexp)
		s, ok := goStr(a[1])
		n := ip.term(a[2])
		if !ok || !n.IsConst() || re == nil || ip.W.ex.Cfg.Params["STUBREGEX"] == 1 {
			return ip.regexpMatchesStub(a[0].(Opaque), a[1].(Str), n)
		}
		r := re.FindAllStringSubmatchIndex(s, int(n.Int()))
		if r == nil {
			return Slice{}
		}
		outer := make([]Value, len(r))
		for i, mm := range r {
			inner := make([]Value, len(mm))
			for j, x := range mm {
				inner[j] = i64(int64(x))
			}
			outer[i] = Slice{A: inner, O: ip.newObj(types.Typ[types.Int], "regexp")}
		}
		return Slice{A: outer, O: ip.newObj(nil, "regexp")}
	})

	// ---------- sync ----------
	for _, n := range []string{"(*sync.Mutex).Lock", "(*sync.Mutex).Unlock", "(*sync.RWMutex).Lock", "(*sync.RWMutex).Unlock", "(*sync.RWMutex).RLock", "(*sync.RWMutex).RUnlock"} {
		name := n
		reg(name, func(ip *Interp, a []Value) Value {
			if ip.W != nil && ip.W.sched != nil {
				ip.W.sched.lockOp(ip, name, a[0])
			}
			return nil
		})
	}
	reg("(*sync.Once).Do", func(ip *Interp, a []Value) Value {
		p := ip.toPtr(a[0])
		st := (*p.C).(Struct)
		// field 0: done (atomic.Uint32 struct or uint32)
		doneCell := &st[0]
		isDone := false
		switch d := (*doneCell).(type) {
		case *Term:
			isDone = d.C != 0
		case Struct:
			// atomic.Uint32{_ noCopy; v uint32}
			if t, ok := d[len(d)-1].(*Term); ok {
				isDone = t.C != 0
			}
		}
		if isDone {
			return nil
		}
		switch d := (*doneCell).(type) {
		case *Term:
			ip.setCell(doneCell, p.O, Const(d.Sort, 1))
		case Struct:
			ip.setCell(&d[len(d)-1], p.O, Const(SBV32, 1))
		}
		ip.CallFunc(a[1])
		return nil
	})

	// ---------- misc runtime ----------
	reg("runtime.GOROOT", func(ip *Interp, a []Value) Value { return MkStr("") })
	reg("internal/godebug.New", func(ip *Interp, a []Value) Value { return Ptr{} })
	reg("(*internal/godebug.Setting).Value", func(ip *Interp, a []Value) Value { return MkStr("") })
	reg("(*internal/godebug.Setting).IncNonDefault", func(ip *Interp, a []Value) Value { return nil })
	reg("os.Getenv", func(ip *Interp, a []Value) Value { return MkStr("") })
	reg("syscall.Getenv", func(ip *Interp, a []Value) Value { return Tuple{MkStr(""), tFalse} })
	reg("time.runtimeNano", func(ip *Interp, a []Value) Value { return i64(0) })
	// no time-zone database: time.Local falls back to UTC (initLocal's documented fallback)
	reg("time.open", func(ip *Interp, a []Value) Value {
		sp := ip.P.ByPath["syscall"]
		if sp == nil {
			ip.unsupported("time.open without package syscall")
		}
		t := sp.Type("Errno").Object().Type()
		return Tuple{Const(SBV64, 0), Iface{T: t, V: Const(SBV64, 2)}}
	})
	reg("time.now", func(ip *Interp, a []Value) Value { return ip.clockNow() })
	reg("math/rand.Seed", func(ip *Interp, a []Value) Value { return nil })
	reg("math/rand.Intn", func(ip *Interp, a []Value) Value {
		n := ip.term(a[0])
		if n.IsConst() && n.Int() <= 0 {
			panic(&targetPanic{V: Iface{T: types.Typ[types.String], V: MkStr("invalid argument to Intn")}, Site: ip.curFnName(), Msg: "invalid argument to Intn"})
		}
		w := ip.W
		if w.ex.Cfg.Params["CONCRETERAND"] == 1 {
			return i64(0)
		}
		v := w.freshVar(SBV64)
		w.inputs = append(w.inputs, Input{Kind: "aux", Vars: []*Term{v}})
		w.addPC(ip.TC.And(ip.TC.SLe(i64(0), v), ip.TC.SLt(v, n)))
		return v
	})
	reg("math/rand.Float64", func(ip *Interp, a []Value) Value {
		w := ip.W
		if w.ex.Cfg.Params["CONCRETERAND"] == 1 {
			return ConstF64(0.5)
		}
		v := w.freshVar(SBV64)
		w.inputs = append(w.inputs, Input{Kind: "aux", Vars: []*Term{v}})
		f := ip.TC.FFromBits(v)
		w.addPC(ip.TC.And(ip.TC.FLe(ConstF64(0), f), ip.TC.FLt(f, ConstF64(1))))
		return f
	})
	reg("runtime.KeepAlive", func(ip *Interp, a []Value) Value { return nil })

	reg("internal/reflectlite.TypeOf", func(ip *Interp, a []Value) Value {
		iv := a[0].(Iface)
		rl := ip.P.ByPath["internal/reflectlite"]
		rt := rl.Type("rtype").Object().Type()
		if iv.T == nil {
			return Iface{}
		}
		return Iface{T: rt, V: RType{T: iv.T}}
	})
	reg("(internal/reflectlite.rtype).Elem", func(ip *Interp, a []Value) Value {
		t := a[0].(RType).T
		rl := ip.P.ByPath["internal/reflectlite"]
		rt := rl.Type("rtype").Object().Type()
		switch u := t.Underlying().(type) {
		case *types.Pointer:
			return Iface{T: rt, V: RType{T: u.Elem()}}
		case *types.Slice:
			return Iface{T: rt, V: RType{T: u.Elem()}}
		}
		ip.unsupported("reflectlite Elem of %v", t)
		return nil
	})
	registerVerif(reg)
	registerReflect(reg)
	registerModels(reg)
	registerJSON(reg)
	return m
}

func (ip *Interp) numError(fn, s string, err error) Value {
	sp := ip.P.ByPath["strconv"]
	t := sp.Type("NumError").Object().Type()
	var inner Value = Iface{}
	if ne, ok := err.(*strconv.NumError); ok {
		switch ne.Err {
		case strconv.ErrRange:
			inner = (*ip.global(sp.Var("ErrRange")).C)
		case strconv.ErrSyntax:
			inner = (*ip.global(sp.Var("ErrSyntax")).C)
		}
	}
	c := new(Value)
	*c = Struct{MkStr(fn), MkStr(s), inner}
	return Iface{T: types.NewPointer(t), V: Ptr{C: c, O: ip.newObj(t, "NumError")}}
}
