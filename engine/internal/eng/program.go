package eng

import (
	"fmt"
	"go/types"
	"os"
	"path/filepath"
	"strings"

	"golang.org/x/tools/go/packages"
	"golang.org/x/tools/go/ssa"
	"golang.org/x/tools/go/ssa/ssautil"
)

type Program struct {
	Prog               *ssa.Program
	Pkgs               []*packages.Package
	Roots              []*ssa.Package
	ByPath             map[string]*ssa.Package
	runtimeErrorString types.Type
	rtypePtr           types.Type
	reflectValueT      types.Type
	Verbose            bool
	RepoPrefix         string
	intrinsics         map[string]*Native
	FuncsEncoded       map[string]bool
	MergeFns           map[string]bool
	Overrides          map[string]string // function -> harness function standing in for it
}

// LoadConfig describes what to load.
type LoadConfig struct {
	Dir      string            // module root of the code under check
	Patterns []string          // package patterns
	Overlay  map[string][]byte // extra/replacement files
	Tags     []string
}

func Load(cfg LoadConfig) (*Program, error) {
	pc := &packages.Config{
		Mode: packages.NeedName | packages.NeedFiles | packages.NeedCompiledGoFiles | packages.NeedImports |
			packages.NeedDeps | packages.NeedTypes | packages.NeedSyntax | packages.NeedTypesInfo | packages.NeedTypesSizes | packages.NeedModule,
		Dir:     cfg.Dir,
		Overlay: cfg.Overlay,
		Env:     append(os.Environ(), "GOFLAGS=-mod=mod", "GOPROXY=off", "GOSUMDB=off", "GOTOOLCHAIN=local", "CGO_ENABLED=0"),
	}
	if len(cfg.Tags) > 0 {
		pc.BuildFlags = []string{"-tags=" + strings.Join(cfg.Tags, ",")}
	}
	pkgs, err := packages.Load(pc, cfg.Patterns...)
	if err != nil {
		return nil, err
	}
	var errs []string
	packages.Visit(pkgs, nil, func(p *packages.Package) {
		for _, e := range p.Errors {
			errs = append(errs, e.Error())
		}
	})
	if len(errs) > 0 {
		return nil, fmt.Errorf("load errors:\n%s", strings.Join(errs, "\n"))
	}
	prog, roots := ssautil.AllPackages(pkgs, ssa.InstantiateGenerics)
	prog.Build()
	p := &Program{Prog: prog, Pkgs: pkgs, Roots: roots, ByPath: map[string]*ssa.Package{}, FuncsEncoded: map[string]bool{}}
	for _, sp := range prog.AllPackages() {
		p.ByPath[sp.Pkg.Path()] = sp
	}
	rt := p.ByPath["runtime"]
	if rt == nil {
		return nil, fmt.Errorf("runtime package not loaded")
	}
	p.runtimeErrorString = rt.Type("errorString").Object().Type()
	if rp := p.ByPath["reflect"]; rp != nil {
		p.rtypePtr = types.NewPointer(rp.Type("rtype").Object().Type())
		p.reflectValueT = rp.Type("Value").Object().Type()
	}
	p.intrinsics = buildIntrinsics()
	p.MergeFns = map[string]bool{}
	p.Overrides = map[string]string{}
	return p, nil
}

// FindHarness looks a function up by name in the root packages.
func (p *Program) FindHarness(name string) *ssa.Function {
	for _, r := range p.Roots {
		if r == nil {
			continue
		}
		if f := r.Func(name); f != nil {
			return f
		}
	}
	return nil
}

// Harnesses lists functions whose name starts with "VerifH_" in the root packages.
func (p *Program) Harnesses() []string {
	var out []string
	for _, r := range p.Roots {
		if r == nil {
			continue
		}
		for name, m := range r.Members {
			if _, ok := m.(*ssa.Function); ok && strings.HasPrefix(name, "VerifH_") {
				out = append(out, name)
			}
		}
	}
	return out
}

func (p *Program) NewInterp() *Interp {
	ip := &Interp{
		P:        p,
		TC:       NewTermCtx(),
		globals:  map[*ssa.Global]Ptr{},
		consts:   map[*ssa.Const]Value{},
		initDone: map[*ssa.Package]bool{},
		warn:     map[string]bool{},
		Budget:   2_000_000,
		intrCache: map[*ssa.Function]*Native{},
	}
	return ip
}

// packages whose init functions are executed (everything else is skipped and must be
// covered by intrinsics when used).
var initAllow = map[string]bool{
	"unicode/utf8": true, "unicode/utf16": true, "strings": true, "strconv": true, "sort": true,
	"errors": true, "math": true, "math/bits": true, "bytes": true, "encoding/base64": true, "net/url": true,
	"time": true, "unicode": true, "slices": true, "cmp": true, "internal/itoa": true, "internal/stringslite": true,
	"encoding/binary": true, "internal/byteorder": true, "encoding/json": false, "path": true,
}

func (ip *Interp) initAllowed(pkg *ssa.Package) bool {
	path := pkg.Pkg.Path()
	if initAllow[path] {
		return true
	}
	if strings.HasPrefix(path, ip.P.RepoPrefix) && ip.P.RepoPrefix != "" {
		return true
	}
	return false
}

// RunInit executes the init functions of the root packages (transitively for allowed packages).
func (ip *Interp) RunInit() (err error) {
	ip.inInit = true
	ip.Epoch = 0
	ip.Budget0()
	defer func() {
		ip.inInit = false
		if r := recover(); r != nil {
			switch r := r.(type) {
			case pathEnd:
				err = fmt.Errorf("init: %s: %s", r.Kind, r.Msg)
			case *targetPanic:
				err = fmt.Errorf("init: target panic: %s (in %s)", r.Msg, r.Site)
			default:
				panic(r)
			}
		}
	}()
	for _, r := range ip.P.Roots {
		if r == nil {
			continue
		}
		ip.CallFunc(r.Func("init"))
	}
	return nil
}

func (ip *Interp) Budget0() {
	if ip.Budget < 500_000_000 {
		// init is concrete and can be long (unicode tables)
	}
}

func repoFile(dir, rel string) string { return filepath.Join(dir, rel) }

// ResetCaches is a hook for per-harness configuration changes (interpreters are created per run,
// so nothing is cached across runs at the program level).
func (p *Program) ResetCaches() {}
