package eng

import (
	"fmt"
)

// registerVerif installs the harness primitives. In the natively compiled harness these read a
// replay vector; here they create symbolic inputs.
func registerVerif(reg func(string, func(*Interp, []Value) Value)) {
	scalar := func(kind string, s Sort) func(*Interp, []Value) Value {
		return func(ip *Interp, a []Value) Value {
			w := ip.W
			v := w.freshVar(s)
			w.inputs = append(w.inputs, Input{Kind: kind, Vars: []*Term{v}})
			return v
		}
	}
	reg("verif:verifInt", scalar("int", SBV64))
	reg("verif:verifInt64", scalar("int", SBV64))
	reg("verif:verifByte", scalar("byte", SBV8))
	reg("verif:verifRune", scalar("rune", SBV32))
	reg("verif:verifBool", scalar("bool", SBool))
	reg("verif:verifFloat", func(ip *Interp, a []Value) Value {
		w := ip.W
		v := w.freshVar(SBV64)
		w.inputs = append(w.inputs, Input{Kind: "float", Vars: []*Term{v}})
		return ip.TC.FFromBits(v)
	})
	reg("verif:verifStringN", func(ip *Interp, a []Value) Value {
		n := int(ip.term(a[0]).Int())
		return ip.W.symString(n)
	})
	reg("verif:verifString", func(ip *Interp, a []Value) Value {
		max := int(ip.term(a[0]).Int())
		n := ip.W.Choose(max + 1)
		ip.W.inputs = append(ip.W.inputs, Input{Kind: "choose", Val: int64(n)})
		return ip.W.symString(n)
	})
	reg("verif:verifChoose", func(ip *Interp, a []Value) Value {
		n := int(ip.term(a[0]).Int())
		k := ip.W.Choose(n)
		ip.W.inputs = append(ip.W.inputs, Input{Kind: "choose", Val: int64(k)})
		return i64(int64(k))
	})
	reg("verif:verifAssume", func(ip *Interp, a []Value) Value {
		ip.W.Assume(ip.term(a[0]))
		return nil
	})
	reg("verif:verifAssert", func(ip *Interp, a []Value) Value {
		id, _ := goStr(a[1])
		ip.W.Assert(ip.term(a[0]), id)
		return nil
	})
	reg("verif:verifParam", func(ip *Interp, a []Value) Value {
		name, _ := goStr(a[0])
		if v, ok := ip.W.ex.Cfg.Params[name]; ok {
			return i64(int64(v))
		}
		return a[1]
	})
	reg("verif:verifNote", func(ip *Interp, a []Value) Value {
		s, ok := goStr(a[0])
		if ok && len(ip.W.notes) < 8 {
			ip.W.notes = append(ip.W.notes, s)
		}
		return nil
	})
	reg("verif:verifEpoch", func(ip *Interp, a []Value) Value {
		ip.Epoch++
		return i64(int64(ip.Epoch))
	})
	// verifFreeze(): everything allocated before the current epoch becomes read-only and a new
	// epoch starts.
	reg("verif:verifFreeze", func(ip *Interp, a []Value) Value {
		ip.Epoch++
		ip.Frozen = ip.Epoch
		return nil
	})
	// verifThreads(bodies...): run the bodies as threads under the lock-set monitor (sched.go)
	reg("verif:verifThreads", func(ip *Interp, a []Value) Value {
		fs, ok := a[0].(Slice)
		if !ok {
			ip.unsupported("verifThreads argument")
		}
		s := newSched(ip)
		ip.W.sched = s
		// every rotation of the thread order is explored, so that each body also runs in the state
		// the other bodies leave behind
		rot := 0
		if len(fs.A) > 1 {
			rot = ip.W.Choose(len(fs.A))
		}
		for k := range fs.A {
			i := (k + rot) % len(fs.A)
			s.begin(ip, i+1)
			ip.CallFunc(fs.A[i])
			s.end(ip)
		}
		s.finish(ip)
		ip.W.sched = nil
		return nil
	})
	reg("verif:verifThaw", func(ip *Interp, a []Value) Value {
		ip.Frozen = 0
		return nil
	})
	reg("verif:verifAllowWrite", func(ip *Interp, a []Value) Value {
		s, _ := goStr(a[0])
		if ip.FrozenOK == nil {
			ip.FrozenOK = map[string]bool{}
		}
		ip.FrozenOK[s] = true
		return nil
	})
	reg("verif:verifTag", func(ip *Interp, a []Value) Value {
		s, _ := goStr(a[0])
		ip.W.tag = s
		return nil
	})
	reg("verif:verifSymbolic", func(ip *Interp, a []Value) Value { return tTrue })
	reg("verif:verifRun", func(ip *Interp, a []Value) Value { return i64(0) })
	reg("verif:verifIsConcrete", func(ip *Interp, a []Value) Value {
		switch v := a[0].(type) {
		case Iface:
			if s, ok := v.V.(Str); ok {
				return Bool(s.Concrete())
			}
			if t, ok := v.V.(*Term); ok {
				return Bool(t.IsConst())
			}
		}
		return tTrue
	})
	reg("verif:verifFail", func(ip *Interp, a []Value) Value {
		id, _ := goStr(a[0])
		ip.W.Assert(tFalse, id)
		return nil
	})
}

func (w *Worker) symString(n int) Str {
	vars := make([]*Term, n)
	for i := range vars {
		vars[i] = w.freshVar(SBV8)
	}
	w.inputs = append(w.inputs, Input{Kind: "string", Vars: vars})
	if n == 0 {
		return Str{}
	}
	return Str{Sym: append([]*Term(nil), vars...)}
}

var _ = fmt.Sprint
