package eng

import (
	"fmt"
	"os"
	"runtime/debug"
	"sort"
	"strings"
	"sync"
	"sync/atomic"
	"time"

	"golang.org/x/tools/go/ssa"
)

// Input records one call of a verif* input primitive on a path (in call order).
type Input struct {
	Kind string  `json:"k"`
	Vars []*Term `json:"-"`
	Val  int64   `json:"v,omitempty"`   // choose / concrete
	Hex  string  `json:"hex,omitempty"` // string/bytes
	Bits string  `json:"bits,omitempty"`
	Str  string  `json:"s,omitempty"` // printable form for humans
}

type Finding struct {
	Harness string  `json:"harness"`
	Kind    string  `json:"kind"` // assert | panic | unwound | frame | race | engine
	ID      string  `json:"id"`
	Site    string  `json:"site"`
	Msg     string  `json:"msg"`
	Inputs  []Input `json:"values"`
	Params  map[string]int `json:"params,omitempty"`
	Count   int     `json:"count"`
	Decisions int   `json:"decisions"`
	extra   *Term
}

func (f *Finding) Key() string { return f.Kind + "|" + f.ID + "|" + f.Site }

type Stats struct {
	Paths        int64
	Completed    int64
	Infeasible   int64
	Unwound      int64
	Unsupported  int64
	Panics       int64
	Asserts      int64 // assertion obligations met on paths
	AssertTriv   int64 // decided by constant folding
	AssertUnsat  int64
	AssertSat    int64
	AssertUnk    int64
	Queries      int64
	SolverUnk    int64
	SolverErrors int64
	SolverTime   time.Duration
	Steps        int64
	Reach        map[string]int64 // assertion id -> number of paths reaching it
	Unsupp       map[string]int64
	UnwoundMsgs  map[string]int64
	MaxDecisions int
}

type Config struct {
	Harness     string
	Solver      string
	Workers     int
	Budget      int64 // instructions per path
	MaxDec      int   // decisions per path
	TimeoutMs   int
	Params      map[string]int
	MaxPaths    int64
	Deadline    time.Time
	Trace       bool
	PermuteMaps bool
	MaxFindings int
	SampleEvery int64
	Verbose     bool
	NoSlice     bool
}

type Sample struct {
	Harness string  `json:"harness"`
	Outcome string  `json:"outcome"`
	Inputs  []Input `json:"values"`
	Notes   []string `json:"notes,omitempty"`
}

type Explorer struct {
	P   *Program
	Cfg Config
	Fn  *ssa.Function

	mu       sync.Mutex
	unsuppSamples int
	cond     *sync.Cond
	work     [][]int16
	active   int
	stop     bool
	Stats    Stats
	Findings map[string]*Finding
	Samples  []Sample
	PassModels []Sample // models of passing paths for native validation
	TimedOut bool
	workers  []*Worker
	cacheHits atomic.Int64
}

func (ex *Explorer) CacheHits() int64 { return ex.cacheHits.Load() }

type Worker struct {
	id     int
	ex     *Explorer
	ip     *Interp
	solver *Solver

	prefix []int16
	pos    int
	taken  []int16
	pc     []*Term
	inputs []Input
	vars   []*Term
	nvar   int
	notes  []string
	sched  *sched
	lastModel map[string]uint64
	feas      map[string]cacheEnt
	pathsSinceReset int
	local *[][]int16
	memo  map[string]Value
	tag   string
	busy  bool
	lastClockSec, lastClockNsec *Term
	clockReads [][2]*Term
}

func (w *Worker) pushSib(sib []int16) {
	if w.local != nil {
		*w.local = append(*w.local, sib)
		return
	}
	w.ex.push(sib)
}

const (
	decFalse       = 0
	decTrue        = 1
	decForcedFalse = 2
	decForcedTrue  = 3
	decChooseBase  = 16
)

func (w *Worker) freshVar(s Sort) *Term {
	v := w.ip.TC.Var(s, fmt.Sprintf("v%d_%d", w.nvar, s))
	w.nvar++
	w.vars = append(w.vars, v)
	return v
}

type cacheEnt struct {
	res   Result
	model map[string]uint64
}

// varsOf returns the sorted ids of the variables below t (memoised per TermCtx).
func (tc *TermCtx) varsOf(t *Term) []int32 {
	if t.IsConst() {
		return nil
	}
	if v, ok := tc.varsMemo[t.id]; ok {
		return v
	}
	var res []int32
	if t.Op == OVar {
		res = []int32{t.id}
	} else {
		for _, a := range t.A {
			res = mergeSorted(res, tc.varsOf(a))
		}
	}
	tc.varsMemo[t.id] = res
	return res
}

func mergeSorted(a, b []int32) []int32 {
	if len(a) == 0 {
		return b
	}
	if len(b) == 0 {
		return a
	}
	out := make([]int32, 0, len(a)+len(b))
	i, j := 0, 0
	for i < len(a) && j < len(b) {
		switch {
		case a[i] < b[j]:
			out = append(out, a[i])
			i++
		case a[i] > b[j]:
			out = append(out, b[j])
			j++
		default:
			out = append(out, a[i])
			i++
			j++
		}
	}
	out = append(out, a[i:]...)
	out = append(out, b[j:]...)
	return out
}

func intersects(a, b []int32) bool {
	i, j := 0, 0
	for i < len(a) && j < len(b) {
		switch {
		case a[i] < b[j]:
			i++
		case a[i] > b[j]:
			j++
		default:
			return true
		}
	}
	return false
}

// check decides pc ∧ extra. It uses constraint independence: only the conjuncts of the path
// condition that (transitively) share variables with extra are sent, and results are cached on that
// slice. This is sound because the path condition itself is kept satisfiable as an invariant.
// With full=true the whole path condition is sent and a complete model is returned.
func (w *Worker) check(extra *Term, wantModel bool) (Result, map[string]uint64) {
	return w.checkX(extra, wantModel, false)
}

func (w *Worker) checkX(extra *Term, wantModel bool, full bool) (Result, map[string]uint64) {
	tc := w.ip.TC
	if full || extra == nil || w.ex.Cfg.NoSlice {
		var vars []*Term
		if wantModel {
			vars = w.vars
		}
		return w.solver.Check(tc, w.pc, extra, vars)
	}
	set := tc.varsOf(extra)
	if len(set) == 0 {
		return w.solver.Check(tc, nil, extra, nil)
	}
	inc := make([]bool, len(w.pc))
	for changed := true; changed; {
		changed = false
		for i, c := range w.pc {
			if inc[i] {
				continue
			}
			vs := tc.varsOf(c)
			if intersects(vs, set) {
				inc[i] = true
				set = mergeSorted(set, vs)
				changed = true
			}
		}
	}
	var rel []*Term
	var kb strings.Builder
	for i, c := range w.pc {
		if inc[i] {
			rel = append(rel, c)
			fmt.Fprintf(&kb, "%d,", c.id)
		}
	}
	fmt.Fprintf(&kb, "|%d", tc.idOf(extra))
	key := kb.String()
	if e, ok := w.feas[key]; ok && (!wantModel || e.res != Sat || e.model != nil) {
		w.ex.cacheHits.Add(1)
		return e.res, e.model
	}
	var vars []*Term
	if wantModel {
		for _, v := range w.vars {
			if intersects([]int32{v.id}, set) {
				vars = append(vars, v)
			}
		}
	}
	r, m := w.solver.Check(tc, rel, extra, vars)
	if w.feas == nil {
		w.feas = map[string]cacheEnt{}
	}
	w.feas[key] = cacheEnt{r, m}
	return r, m
}

// mergeModel overrides the cached partial model with the values of a newer slice model.
func (w *Worker) mergeModel(m map[string]uint64) {
	if m == nil {
		return
	}
	if w.lastModel == nil {
		w.lastModel = map[string]uint64{}
	}
	for k, v := range m {
		w.lastModel[k] = v
	}
}

func (w *Worker) addPC(c *Term) {
	if c.IsConst() {
		return
	}
	w.pc = append(w.pc, c)
}

// Branch decides a symbolic condition, forking when both outcomes are feasible.
func (w *Worker) Branch(c *Term) bool {
	if c.IsConst() {
		return c.C == 1
	}
	tc := w.ip.TC
	if w.pos < len(w.prefix) {
		d := w.prefix[w.pos]
		w.pos++
		w.taken = append(w.taken, d)
		switch d {
		case decTrue:
			w.addPC(c)
			return true
		case decFalse:
			w.addPC(tc.Not(c))
			return false
		case decForcedTrue:
			return true
		case decForcedFalse:
			return false
		}
		panic(fmt.Sprintf("engine: decision mismatch at %d: %d (non-deterministic harness?)", w.pos-1, d))
	}
	if len(w.taken) >= w.ex.Cfg.MaxDec {
		panic(pathEnd{Kind: "unwound", Msg: "decision budget exceeded" + w.ip.where()})
	}
	known := -1
	if w.lastModel != nil {
		if v, ok := EvalTerm(c, w.lastModel, map[*Term]uint64{}); ok {
			known = int(v)
		}
	}
	fork := func(mine int16) bool {
		sib := make([]int16, len(w.taken)+1)
		copy(sib, w.taken)
		sib[len(w.taken)] = 1 - mine
		w.pushSib(sib)
		w.taken = append(w.taken, mine)
		if mine == decTrue {
			w.addPC(c)
			return true
		}
		w.addPC(tc.Not(c))
		return false
	}
	switch known {
	case 1:
		if r, _ := w.check(tc.Not(c), false); r == Unsat {
			w.taken = append(w.taken, decForcedTrue)
			return true
		}
		return fork(decTrue)
	case 0:
		if r, _ := w.check(c, false); r == Unsat {
			w.taken = append(w.taken, decForcedFalse)
			return false
		}
		return fork(decFalse)
	}
	rT, mT := w.check(c, true)
	if rT == Unsat {
		w.taken = append(w.taken, decForcedFalse)
		return false
	}
	if rT == Sat {
		w.mergeModel(mT)
	}
	if rF, _ := w.check(tc.Not(c), false); rF == Unsat {
		w.taken = append(w.taken, decForcedTrue)
		return true
	}
	if rT != Sat {
		w.dropModel(c)
	}
	return fork(decTrue)
}

// Choose forks n ways without consulting the solver.
func (w *Worker) Choose(n int) int {
	if n <= 1 {
		return 0
	}
	if n > 32000 {
		// decisions are stored as int16
		w.ip.unsupported("choice among %d alternatives (limit 32000; split it)", n)
	}
	if w.pos < len(w.prefix) {
		d := w.prefix[w.pos]
		w.pos++
		w.taken = append(w.taken, d)
		if d < decChooseBase {
			panic(fmt.Sprintf("engine: decision mismatch (choose): prefix=%v pos=%d n=%d%s", w.prefix, w.pos-1, n, w.ip.where()))
		}
		return int(d - decChooseBase)
	}
	if len(w.taken) >= w.ex.Cfg.MaxDec {
		panic(pathEnd{Kind: "unwound", Msg: "decision budget exceeded (choose)"})
	}
	for k := n - 1; k >= 1; k-- {
		sib := make([]int16, len(w.taken)+1)
		copy(sib, w.taken)
		sib[len(w.taken)] = int16(decChooseBase + k)
		w.pushSib(sib)
	}
	w.taken = append(w.taken, decChooseBase)
	return 0
}

// ConcretizeRange forks over the feasible values of t within [lo,hi] (signed).
func (w *Worker) ConcretizeRange(t *Term, lo, hi int64) int64 {
	if t.IsConst() {
		return t.Int()
	}
	tc := w.ip.TC
	for v := lo; v <= hi; v++ {
		if w.Branch(tc.Eq(t, Const(t.Sort, uint64(v)))) {
			return v
		}
	}
	panic(pathEnd{Kind: "unwound", Msg: fmt.Sprintf("symbolic value outside concretisation range [%d,%d]", lo, hi) + w.ip.where()})
}

func (w *Worker) mapOrder(n int) []int {
	ord := make([]int, n)
	for i := range ord {
		ord[i] = i
	}
	if !w.ex.Cfg.PermuteMaps || n < 2 || n > 3 {
		return ord
	}
	// choose a permutation
	perms := permutations(n)
	k := w.Choose(len(perms))
	return perms[k]
}

func permutations(n int) [][]int {
	var res [][]int
	var rec func(cur []int, used []bool)
	rec = func(cur []int, used []bool) {
		if len(cur) == n {
			res = append(res, append([]int(nil), cur...))
			return
		}
		for i := 0; i < n; i++ {
			if !used[i] {
				used[i] = true
				rec(append(cur, i), used)
				used[i] = false
			}
		}
	}
	rec(nil, make([]bool, n))
	return res
}

// Assume restricts the path.
func (w *Worker) Assume(c *Term) {
	if c.IsConst() {
		if c.C == 0 {
			panic(pathEnd{Kind: "infeasible"})
		}
		return
	}
	if !w.Branch1(c) {
		panic(pathEnd{Kind: "infeasible"})
	}
}

// Branch1 is like Branch but only follows the true side (no sibling for false); returns false if c is infeasible.
func (w *Worker) Branch1(c *Term) bool {
	if w.pos < len(w.prefix) {
		d := w.prefix[w.pos]
		w.pos++
		w.taken = append(w.taken, d)
		switch d {
		case decTrue:
			w.addPC(c)
			return true
		case decForcedTrue:
			return true
		case decForcedFalse:
			return false
		}
		panic("engine: decision mismatch (assume)")
	}
	if w.lastModel != nil {
		if v, ok := EvalTerm(c, w.lastModel, map[*Term]uint64{}); ok && v == 1 {
			w.taken = append(w.taken, decTrue)
			w.addPC(c)
			return true
		}
	}
	r, m := w.check(c, true)
	if r == Unsat {
		w.taken = append(w.taken, decForcedFalse)
		return false
	}
	if r == Sat {
		w.mergeModel(m)
	} else {
		w.dropModel(c)
	}
	w.taken = append(w.taken, decTrue)
	w.addPC(c)
	return true
}

// dropModel forgets cached values for the variables of c (used when no witness is available).
func (w *Worker) dropModel(c *Term) {
	if w.lastModel == nil {
		return
	}
	// conservative: forget everything
	w.lastModel = nil
}

func (w *Worker) Assert(c *Term, id string) {
	st := &w.ex.Stats
	w.ex.mu.Lock()
	st.Asserts++
	st.Reach[id]++
	w.ex.mu.Unlock()
	tc := w.ip.TC
	if c.IsConst() && c.C == 1 {
		w.ex.mu.Lock()
		st.AssertTriv++
		w.ex.mu.Unlock()
		return
	}
	r, m := w.check(tc.Not(c), true)
	switch r {
	case Unsat:
		w.ex.mu.Lock()
		st.AssertUnsat++
		w.ex.mu.Unlock()
		return
	case Unknown:
		w.ex.mu.Lock()
		st.AssertUnk++
		w.ex.mu.Unlock()
		w.addPC(c)
		return
	}
	w.ex.mu.Lock()
	st.AssertSat++
	w.ex.mu.Unlock()
	w.report(&Finding{Kind: "assert", ID: id, Site: id, Msg: "assertion " + id + " can fail", extra: tc.Not(c)}, m)
	// continue on the side where the assertion holds, if any
	if c.IsConst() {
		panic(pathEnd{Kind: "done", Msg: "assert-failed"})
	}
	if !w.Branch1(c) {
		panic(pathEnd{Kind: "done", Msg: "assert-failed"})
	}
}

func (w *Worker) concreteInputs(model map[string]uint64) []Input {
	out := make([]Input, len(w.inputs))
	for i, in := range w.inputs {
		o := Input{Kind: in.Kind, Val: in.Val}
		switch in.Kind {
		case "string":
			bs := make([]byte, len(in.Vars))
			for j, v := range in.Vars {
				bs[j] = byte(model[v.Name])
			}
			o.Hex = fmt.Sprintf("%x", bs)
			o.Str = fmt.Sprintf("%q", string(bs))
		case "float":
			o.Bits = fmt.Sprintf("0x%016x", model[in.Vars[0].Name])
			o.Str = fmt.Sprint((&Term{Sort: SFP64, C: model[in.Vars[0].Name]}).F64())
		case "int", "byte", "rune", "bool":
			v := model[in.Vars[0].Name]
			o.Val = sx(v, in.Vars[0].Sort)
			if in.Kind == "bool" {
				o.Val = int64(v & 1)
			}
		}
		out[i] = o
	}
	return out
}

func (w *Worker) report(f *Finding, model map[string]uint64) {
	if true {
		r, m := w.checkX(f.extra, true, true)
		if r == Sat {
			model = m
		} else {
			model = map[string]uint64{}
			f.Msg += " [no model: path condition " + r.String() + "]"
		}
	}
	f.Harness = w.ex.Cfg.Harness
	f.Inputs = w.concreteInputs(model)
	f.Params = w.ex.Cfg.Params
	f.Decisions = len(w.taken)
	ex := w.ex
	ex.mu.Lock()
	defer ex.mu.Unlock()
	if old, ok := ex.Findings[f.Key()]; ok {
		old.Count++
		return
	}
	f.Count = 1
	ex.Findings[f.Key()] = f
}

func (w *Worker) frameViolation(ip *Interp, o *Obj, site, what string) {
	id := "frame"
	if w.tag != "" {
		id = "frame:" + w.tag
	}
	w.report(&Finding{Kind: "frame", ID: id, Site: site, Msg: fmt.Sprintf("%s into frozen object (%s, epoch %d)", what, o.Site, o.Epoch)}, nil)
}

func (ex *Explorer) push(p []int16) {
	if len(p) == 1 && p[0] < 16 && os.Getenv("GOSYM_DEBUGPUSH") != "" {
		fmt.Fprintf(os.Stderr, "DEBUG push %v\n%s\n", p, debug.Stack())
	}
	ex.mu.Lock()
	ex.work = append(ex.work, p)
	ex.mu.Unlock()
	ex.cond.Signal()
}

func (ex *Explorer) pop() ([]int16, bool) {
	ex.mu.Lock()
	defer ex.mu.Unlock()
	for {
		if ex.stop {
			return nil, false
		}
		if n := len(ex.work); n > 0 {
			p := ex.work[n-1]
			ex.work = ex.work[:n-1]
			ex.active++
			return p, true
		}
		if ex.active == 0 {
			ex.stop = true
			ex.cond.Broadcast()
			return nil, false
		}
		ex.cond.Wait()
	}
}

func (ex *Explorer) done() {
	ex.mu.Lock()
	ex.active--
	if ex.active == 0 && len(ex.work) == 0 {
		ex.stop = true
		ex.cond.Broadcast()
	}
	ex.mu.Unlock()
}

func NewExplorer(p *Program, cfg Config) (*Explorer, error) {
	fn := p.FindHarness(cfg.Harness)
	if fn == nil {
		return nil, fmt.Errorf("harness %s not found", cfg.Harness)
	}
	ex := &Explorer{P: p, Cfg: cfg, Fn: fn, Findings: map[string]*Finding{}}
	ex.cond = sync.NewCond(&ex.mu)
	ex.Stats.Reach = map[string]int64{}
	ex.Stats.Unsupp = map[string]int64{}
	ex.Stats.UnwoundMsgs = map[string]int64{}
	return ex, nil
}

func (ex *Explorer) Run() error {
	cfg := ex.Cfg
	if cfg.Workers <= 0 {
		cfg.Workers = 1
	}
	ex.work = [][]int16{{}}
	var wg sync.WaitGroup
	if os.Getenv("GOSYM_PROGRESS") != "" {
		stopProg := make(chan struct{})
		defer close(stopProg)
		go func() {
			t := time.NewTicker(10 * time.Second)
			defer t.Stop()
			for {
				select {
				case <-stopProg:
					return
				case <-t.C:
					ex.mu.Lock()
					fmt.Fprintf(os.Stderr, "progress %s: paths=%d queue=%d active=%d findings=%d\n", cfg.Harness, ex.Stats.Paths, len(ex.work), ex.active, len(ex.Findings))
					if ex.active <= 6 {
						for _, w := range ex.workers {
							if w != nil && w.busy && len(w.notes) > 0 {
								fmt.Fprintf(os.Stderr, "   busy: %s steps=%d in %s\n", w.notes[0], w.ip.Steps, w.ip.curFnName())
							}
						}
					}
					ex.mu.Unlock()
				}
			}
		}()
	}
	errs := make(chan error, cfg.Workers)
	for i := 0; i < cfg.Workers; i++ {
		wg.Add(1)
		go func(id int) {
			defer wg.Done()
			w, err := ex.newWorker(id)
			if err != nil {
				errs <- err
				ex.mu.Lock()
				ex.stop = true
				ex.cond.Broadcast()
				ex.mu.Unlock()
				return
			}
			defer w.solver.Close()
			ex.mu.Lock()
			ex.workers = append(ex.workers, w)
			ex.mu.Unlock()
			for {
				p, ok := ex.pop()
				if !ok {
					break
				}
				w.busy = true
				w.runPath(p)
				w.busy = false
				ex.done()
				if !cfg.Deadline.IsZero() && time.Now().After(cfg.Deadline) || (cfg.MaxPaths > 0 && ex.Stats.Paths >= cfg.MaxPaths) {
					ex.mu.Lock()
					if len(ex.work) > 0 || ex.active > 0 {
						ex.TimedOut = true
					}
					ex.stop = true
					ex.cond.Broadcast()
					ex.mu.Unlock()
					break
				}
			}
			ex.mu.Lock()
			ex.Stats.Queries += int64(w.solver.Queries)
			ex.Stats.SolverUnk += int64(w.solver.NUnknown)
			ex.Stats.SolverErrors += int64(w.solver.Errors)
			ex.Stats.SolverTime += w.solver.Time
			if w.solver.Errors > 0 && cfg.Verbose {
				fmt.Fprintf(os.Stderr, "solver error (worker %d): %s\nFIRST: %s\n", id, w.solver.LastErr, w.solver.FirstErr)
			}
			ex.mu.Unlock()
		}(i)
	}
	wg.Wait()
	select {
	case err := <-errs:
		return err
	default:
	}
	return nil
}

func (ex *Explorer) newWorker(id int) (*Worker, error) {
	s, err := NewSolver(ex.Cfg.Solver, ex.Cfg.TimeoutMs)
	if err != nil {
		return nil, err
	}
	w := &Worker{id: id, ex: ex, solver: s}
	ip := ex.P.NewInterp()
	ip.W = w
	ip.Budget = ex.Cfg.Budget
	ip.Trace = ex.Cfg.Trace
	w.ip = ip
	if err := ip.RunInit(); err != nil {
		s.Close()
		return nil, err
	}
	return w, nil
}

func (w *Worker) resetTerms() {
	w.ip.TC = NewTermCtx()
	w.solver.Restart()
	w.feas = nil
	w.pathsSinceReset = 0
}

func (w *Worker) runPath(prefix []int16) {
	ex := w.ex
	ip := w.ip
	if ip.TC.nextID > 400000 || w.pathsSinceReset > 5000 {
		w.resetTerms()
	}
	w.pathsSinceReset++
	w.prefix, w.pos, w.taken = prefix, 0, w.taken[:0]
	w.pc = w.pc[:0]
	w.inputs = w.inputs[:0]
	w.vars = w.vars[:0]
	w.nvar = 0
	w.notes = nil
	w.lastModel = nil
	w.sched = nil
	w.memo = nil
	w.tag = ""
	w.lastClockSec, w.lastClockNsec, w.clockReads = nil, nil, nil
	mark := len(ip.journal)
	ip.Steps = 0
	ip.depth = 0
	ip.Epoch = 1
	ip.Frozen = 0
	ip.FrozenOK = nil
	ip.curFn = nil
	outcome := "completed"
	var detail string
	func() {
		defer func() {
			r := recover()
			if r == nil {
				return
			}
			switch r := r.(type) {
			case pathEnd:
				outcome, detail = r.Kind, r.Msg
			case *targetPanic:
				outcome, detail = "panic", r.Msg
				w.report(&Finding{Kind: "panic", ID: "panic", Site: r.Site, Msg: r.Msg}, nil)
			default:
				outcome = "engine"
				detail = fmt.Sprintf("%v\n%s", r, debug.Stack())
				w.report(&Finding{Kind: "engine", ID: "engine", Site: ip.curFnName(), Msg: fmt.Sprintf("%v", r) + ip.where()}, nil)
				if ex.Cfg.Verbose {
					fmt.Fprintf(os.Stderr, "ENGINE ERROR: %s\n", detail)
				}
			}
		}()
		ip.CallFunc(ex.Fn)
		if w.sched != nil {
			w.sched.finish(ip)
		}
	}()
	if outcome == "unsupported" {
		// keep a model of some of these paths: the check runs them natively instead
		ex.mu.Lock()
		k := ex.unsuppSamples
		ex.unsuppSamples++
		ex.mu.Unlock()
		if k < 300 {
			w.report(&Finding{Kind: "unsupported", ID: "unsupported", Site: fmt.Sprintf("%s #%d", trimPos(detail), k), Msg: detail}, nil)
		}
	}
	if outcome == "unwound" {
		// keep a model so that a hang can be confirmed natively
		w.report(&Finding{Kind: "unwound", ID: "unwound", Site: ip.curFnName(), Msg: detail}, nil)
	}
	ip.undoJournal(mark)
	ex.mu.Lock()
	st := &ex.Stats
	st.Paths++
	st.Steps += ip.Steps
	if len(w.taken) > st.MaxDecisions {
		st.MaxDecisions = len(w.taken)
	}
	switch outcome {
	case "completed", "done":
		st.Completed++
	case "infeasible":
		st.Infeasible++
	case "unwound":
		st.Unwound++
		st.UnwoundMsgs[trimPos(detail)]++
	case "unsupported":
		st.Unsupported++
		st.Unsupp[trimPos(detail)]++
	case "panic":
		st.Panics++
	}
	n := st.Paths
	ex.mu.Unlock()
	if outcome == "completed" && (len(ex.Samples) < 4 || (ex.Cfg.SampleEvery > 0 && n%ex.Cfg.SampleEvery == 0 && len(ex.PassModels) < 12)) {
		// sample this path with a concrete model
		r, m := w.checkX(nil, true, true)
		if r == Sat {
			s := Sample{Harness: ex.Cfg.Harness, Outcome: "pass", Inputs: w.concreteInputs(m), Notes: w.notes}
			ex.mu.Lock()
			if len(ex.Samples) < 4 {
				ex.Samples = append(ex.Samples, s)
			}
			ex.PassModels = append(ex.PassModels, s)
			ex.mu.Unlock()
		}
	}
	if ex.Cfg.Verbose && outcome != "completed" && outcome != "infeasible" {
		fmt.Fprintf(os.Stderr, "path %d: %s %s\n", n, outcome, firstLine(detail))
	}
}

func firstLine(s string) string {
	if i := strings.IndexByte(s, '\n'); i >= 0 {
		return s[:i]
	}
	return s
}

func trimPos(s string) string {
	if i := strings.Index(s, " at /"); i >= 0 {
		return s[:i]
	}
	return s
}

func (ex *Explorer) SortedFindings() []*Finding {
	var fs []*Finding
	for _, f := range ex.Findings {
		fs = append(fs, f)
	}
	sort.Slice(fs, func(i, j int) bool { return fs[i].Key() < fs[j].Key() })
	return fs
}
