package eng

func registerModels(reg func(string, func(*Interp, []Value) Value)) {}

func (ip *Interp) parseFloatStub(s Str) Value {
	ip.unsupported("strconv.ParseFloat on symbolic string")
	return nil
}

func (ip *Interp) formatFloatStub(x *Term, fmtc byte, prec int) Str {
	ip.unsupported("float formatting of symbolic value")
	return Str{}
}

func (ip *Interp) regexpCompileStub(s Str) Value {
	ip.unsupported("regexp.Compile on symbolic pattern")
	return nil
}

func (ip *Interp) regexpMatchesStub(re Opaque, s Str, n *Term) Value {
	ip.unsupported("regexp matching on symbolic input")
	return nil
}
