package eng

import (
	"fmt"
	"go/types"
	"math"
	"regexp"
	"strings"
)

func registerModels(reg func(string, func(*Interp, []Value) Value)) {}

// symRegexp stands for a compiled regular expression whose pattern is symbolic.
type symRegexp struct {
	pattern Str
}

func strKey(s Str) string {
	if s.Concrete() {
		return "c:" + s.S
	}
	var sb strings.Builder
	for _, t := range s.Sym {
		if t.IsConst() {
			fmt.Fprintf(&sb, "k%d,", t.C)
		} else {
			fmt.Fprintf(&sb, "t%d,", t.id)
		}
	}
	return sb.String()
}

// parseFloatStub models strconv.ParseFloat on a symbolic string: nondeterministically success with an
// arbitrary double (the same double for the same symbolic text on one path), a syntax error, or a
// range error with an infinite value.
func (ip *Interp) parseFloatStub(s Str) Value {
	w := ip.W
	switch w.Choose(3) {
	case 0:
		key := "pf:" + strKey(s)
		if w.memo == nil {
			w.memo = map[string]Value{}
		}
		v, ok := w.memo[key]
		if !ok {
			b := w.freshVar(SBV64)
			w.inputs = append(w.inputs, Input{Kind: "aux", Vars: []*Term{b}})
			f := ip.TC.FFromBits(b)
			// ParseFloat never returns NaN or Inf without an error for numeric text
			w.addPC(ip.TC.Not(ip.TC.FIsNaN(f)))
			w.addPC(ip.TC.Not(ip.TC.FIsInf(f)))
			v = f
			w.memo[key] = v
		}
		return Tuple{v, Iface{}}
	case 1:
		return Tuple{ConstF64(0), ip.numErrorSym("ParseFloat", s, "ErrSyntax")}
	default:
		return Tuple{ConstF64(math.Inf(1)), ip.numErrorSym("ParseFloat", s, "ErrRange")}
	}
}

func (ip *Interp) numErrorSym(fn string, s Str, which string) Value {
	sp := ip.P.ByPath["strconv"]
	t := sp.Type("NumError").Object().Type()
	inner := *ip.global(sp.Var(which)).C
	c := new(Value)
	*c = Struct{MkStr(fn), s, inner}
	return Iface{T: types.NewPointer(t), V: Ptr{C: c, O: ip.newObj(t, "NumError")}}
}

// formatFloatStub models strconv.AppendFloat/FormatFloat(x, 'f', prec) on a symbolic value by an
// opaque WELL-FORMED numeral: the number of integer digits follows from the magnitude (forks on
// |x| < 10^k), every digit is a fresh symbolic byte in '0'..'9' that is NOT linked to the value
// (decimal conversion is the library's). A leading '-' is produced for negative values.
func (ip *Interp) formatFloatStub(x *Term, fmtc byte, prec int) Str {
	if fmtc != 'f' || prec < 0 || prec > 20 {
		ip.unsupported("float formatting of symbolic value")
	}
	w := ip.W
	tc := ip.TC
	if ip.condT(tc.Or(tc.FIsNaN(x), tc.FIsInf(x))) {
		ip.unsupported("float formatting of symbolic NaN/Inf")
	}
	ax := tc.FAbs(x)
	digits := 0
	p := 10.0
	for k := 1; k <= 22; k++ {
		if ip.condT(tc.FLt(ax, ConstF64(p))) {
			digits = k
			break
		}
		p *= 10
	}
	if digits == 0 {
		ip.unsupported("float formatting of symbolic value >= 1e22")
	}
	var out []*Term
	if ip.condT(tc.FLt(x, ConstF64(0))) {
		out = append(out, Const(SBV8, '-'))
	}
	digit := func() *Term {
		b := w.freshVar(SBV8)
		w.inputs = append(w.inputs, Input{Kind: "aux", Vars: []*Term{b}})
		w.addPC(tc.And(tc.ULe(Const(SBV8, '0'), b), tc.ULe(b, Const(SBV8, '9'))))
		return b
	}
	for i := 0; i < digits; i++ {
		d := digit()
		if i == 0 && digits > 1 {
			w.addPC(tc.Not(tc.Eq(d, Const(SBV8, '0')))) // no leading zero
		}
		out = append(out, d)
	}
	if prec > 0 {
		out = append(out, Const(SBV8, '.'))
		for i := 0; i < prec; i++ {
			out = append(out, digit())
		}
	}
	return Str{Sym: out}
}

// regexpCompileStub models regexp.Compile on a symbolic pattern.
func (ip *Interp) regexpCompileStub(s Str) Value {
	w := ip.W
	if w.Choose(2) == 0 {
		return Tuple{Opaque{V: &symRegexp{pattern: s}}, Iface{}}
	}
	sp := ip.P.ByPath["regexp/syntax"]
	t := sp.Type("Error").Object().Type()
	c := new(Value)
	*c = Struct{MkStr("missing closing )"), s}
	return Tuple{Opaque{}, Iface{T: types.NewPointer(t), V: Ptr{C: c, O: ip.newObj(t, "syntax.Error")}}}
}

// regexpMatchesStub models FindAllStringSubmatchIndex by an arbitrary WELL-FORMED result: k <= K
// matches, increasing and non-overlapping, 0 <= a <= b <= len(s), each capture group either (-1,-1)
// or inside its match. The result is memoised per (regexp, subject) on a path so that the code under
// check and the reference see the same engine answer.
func (ip *Interp) regexpMatchesStub(re Opaque, s Str, n *Term) Value {
	w := ip.W
	groups := 0
	key := "re:"
	switch r := re.V.(type) {
	case *regexp.Regexp:
		groups = r.NumSubexp()
		key += r.String()
	case *symRegexp:
		groups = w.ex.Cfg.Params["REGROUPS"]
		key += strKey(r.pattern)
	default:
		ip.unsupported("regexp receiver")
	}
	key += "|" + strKey(s)
	if w.memo == nil {
		w.memo = map[string]Value{}
	}
	if v, ok := w.memo[key]; ok {
		return v
	}
	maxK := w.ex.Cfg.Params["REMATCHES"]
	if maxK == 0 {
		maxK = 2
	}
	k := w.Choose(maxK + 1)
	tc := ip.TC
	ln := i64(int64(s.Len()))
	fresh := func() *Term {
		v := w.freshVar(SBV64)
		w.inputs = append(w.inputs, Input{Kind: "aux", Vars: []*Term{v}})
		return v
	}
	var outer []Value
	prevEnd := i64(0)
	for i := 0; i < k; i++ {
		a, b := fresh(), fresh()
		w.addPC(tc.And(tc.SLe(prevEnd, a), tc.And(tc.SLe(a, b), tc.SLe(b, ln))))
		if i > 0 {
			// the engine always makes progress: a later match starts after the previous start
			pa := outer[i-1].(Slice).A[0].(*Term)
			w.addPC(tc.SLt(pa, a))
		}
		inner := []Value{a, b}
		for g := 0; g < groups; g++ {
			if w.Choose(2) == 0 {
				inner = append(inner, i64(-1), i64(-1))
				continue
			}
			ga, gb := fresh(), fresh()
			w.addPC(tc.And(tc.SLe(a, ga), tc.And(tc.SLe(ga, gb), tc.SLe(gb, b))))
			inner = append(inner, ga, gb)
		}
		outer = append(outer, Slice{A: inner, O: ip.newObj(types.Typ[types.Int], "regexp-stub")})
		prevEnd = b
	}
	var res Value = Slice{}
	if k > 0 {
		res = Slice{A: outer, O: ip.newObj(nil, "regexp-stub")}
	}
	w.memo[key] = res
	return res
}
// clockNow models time.now(): (sec int64, nsec int32, mono int64). The wall clock is an arbitrary
// non-decreasing reading (fresh symbolic per call).
func (ip *Interp) clockNow() Value {
	w := ip.W
	if w == nil || ip.inInit {
		return Tuple{i64(1700000000), Const(SBV32, 0), i64(1)}
	}
	tc := ip.TC
	if w.ex.Cfg.Params["CONCRETECLOCK"] == 1 {
		k := int64(len(w.clockReads))
		w.clockReads = append(w.clockReads, [2]*Term{nil, nil})
		return Tuple{i64(1700000000 + 1000*k), Const(SBV32, uint64((k*377000001+999999)%1000000000)), i64(1)}
	}
	sec := w.freshVar(SBV64)
	nsec := w.freshVar(SBV32)
	w.inputs = append(w.inputs, Input{Kind: "aux", Vars: []*Term{sec}}, Input{Kind: "aux", Vars: []*Term{nsec}})
	// years 1970..2200, nsec in range
	w.addPC(tc.And(tc.SLe(i64(0), sec), tc.SLe(sec, i64(7258118400))))
	w.addPC(tc.And(tc.SLe(Const(SBV32, 0), nsec), tc.SLt(nsec, Const(SBV32, 1000000000))))
	if w.lastClockSec != nil {
		later := tc.Or(tc.SLt(w.lastClockSec, sec), tc.And(tc.Eq(w.lastClockSec, sec), tc.SLe(w.lastClockNsec, nsec)))
		w.addPC(later)
	}
	w.lastClockSec, w.lastClockNsec = sec, nsec
	w.clockReads = append(w.clockReads, [2]*Term{sec, nsec})
	return Tuple{sec, nsec, i64(1)}
}
