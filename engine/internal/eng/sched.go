package eng

import (
	"fmt"
	"sort"
	"strings"
)

// sched is the thread-modular lock-set monitor used for the concurrency property (C06).
//
// verifThreads(f1, f2, ...) runs the thread bodies one after the other on the symbolic heap. Every
// object allocated before the call is "shared"; objects allocated inside a body are private to it
// (they can only become visible to another thread through a store into shared memory, which is
// itself recorded). For every access of a body to a shared object the monitor records (thread,
// read/write, set of locks held with their mode). When the last body has finished, two accesses to
// the same object from different threads, at least one of them a write, with no common lock (held
// exclusively by the writer) are reported as a data race. The repository uses no other
// synchronisation than sync.(RW)Mutex, so the lock-set discipline implies race freedom for every
// interleaving and any number of goroutines running these bodies.
type sched struct {
	shareEpoch int
	thread     int
	held       map[*Value]int8 // mutex cell -> 1 shared, 2 exclusive
	heldKey    string
	acc        map[interface{}]*objAcc
	order      []interface{}
}

type schedAccess struct {
	thread int
	write  bool
	locks  string
	site   string
}

type objAcc struct {
	o     *Obj
	items []schedAccess
}

func newSched(ip *Interp) *sched {
	ip.Epoch++
	return &sched{shareEpoch: ip.Epoch, held: map[*Value]int8{}, acc: map[interface{}]*objAcc{}}
}

func (s *sched) begin(ip *Interp, thread int) {
	s.thread = thread
	s.held = map[*Value]int8{}
	s.heldKey = ""
}

func (s *sched) end(ip *Interp) {
	if len(s.held) > 0 {
		ip.W.report(&Finding{Kind: "race", ID: "lock-held-at-thread-end", Site: ip.curFnName(), Msg: "a thread body ended holding " + s.heldKey}, nil)
	}
	s.thread = 0
}

func (s *sched) record(ip *Interp, key interface{}, o *Obj, write bool) {
	if s.thread == 0 || ip.inInit {
		return
	}
	if o != nil && o.Epoch >= s.shareEpoch {
		return // allocated by a thread body: private
	}
	a := s.acc[key]
	if a == nil {
		a = &objAcc{o: o}
		s.acc[key] = a
		s.order = append(s.order, key)
	}
	for i := range a.items {
		it := &a.items[i]
		if it.thread == s.thread && it.write == write && it.locks == s.heldKey {
			return
		}
	}
	site := ""
	if write && ip.curFn != nil {
		site = ip.curFn.String()
	}
	a.items = append(a.items, schedAccess{thread: s.thread, write: write, locks: s.heldKey, site: site})
}

func (s *sched) access(ip *Interp, p Ptr, write bool) {
	if p.O == nil {
		return // stack cell of the running frame
	}
	s.record(ip, p.O, p.O, write)
}

func (s *sched) accessObj(ip *Interp, o *Obj, write bool) {
	if o == nil {
		return
	}
	s.record(ip, o, o, write)
}

func (s *sched) accessMap(ip *Interp, m *Map, write bool) {
	if m == nil {
		return
	}
	s.record(ip, m, m.O, write)
}

func (s *sched) spawn(ip *Interp, fn Value, args []Value) { ip.unsupported("go statement") }

func (s *sched) lockOp(ip *Interp, name string, recv Value) {
	p, ok := recv.(Ptr)
	if !ok || p.C == nil {
		return
	}
	switch {
	case strings.HasSuffix(name, ").Lock"):
		s.held[p.C] = 2
	case strings.HasSuffix(name, ").RLock"):
		if s.held[p.C] == 0 {
			s.held[p.C] = 1
		}
	case strings.HasSuffix(name, ").Unlock"), strings.HasSuffix(name, ").RUnlock"):
		delete(s.held, p.C)
	}
	var ks []string
	for c, m := range s.held {
		ks = append(ks, fmt.Sprintf("%p:%d", c, m))
	}
	sort.Strings(ks)
	s.heldKey = strings.Join(ks, ",")
}

func lockModes(k string) map[string]byte {
	out := map[string]byte{}
	if k == "" {
		return out
	}
	for _, e := range strings.Split(k, ",") {
		i := strings.LastIndexByte(e, ':')
		out[e[:i]] = e[i+1]
	}
	return out
}

// ordered reports whether accesses a (a write) and b are ordered by a common lock.
func ordered(a, b schedAccess) bool {
	la, lb := lockModes(a.locks), lockModes(b.locks)
	for l, ma := range la {
		mb, ok := lb[l]
		if !ok {
			continue
		}
		if ma == '2' && (!b.write || mb == '2') {
			return true
		}
	}
	return false
}

// finish checks the recorded accesses pairwise.
func (s *sched) finish(ip *Interp) {
	for _, key := range s.order {
		a := s.acc[key]
		for i := range a.items {
			x := a.items[i]
			if !x.write {
				continue
			}
			for j := range a.items {
				y := a.items[j]
				if y.thread == x.thread || (y.write && j < i) {
					continue
				}
				if !ordered(x, y) {
					osite := "global"
					if a.o != nil {
						osite = a.o.Site
					}
					kind := "read"
					if y.write {
						kind = "write"
					}
					ip.W.report(&Finding{Kind: "race", ID: "race", Site: x.site,
						Msg: fmt.Sprintf("thread %d writes shared object (%s) in %s [locks %q] while thread %d may %s it [locks %q]", x.thread, osite, x.site, x.locks, y.thread, kind, y.locks)}, nil)
					break
				}
			}
		}
	}
}
