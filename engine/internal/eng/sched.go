package eng

// sched is the two-thread scheduler / lock-set monitor (built later).
type sched struct{}

func (s *sched) access(ip *Interp, p Ptr, write bool)       {}
func (s *sched) accessMap(ip *Interp, m *Map, write bool)   {}
func (s *sched) spawn(ip *Interp, fn Value, args []Value)   { ip.unsupported("go statement") }
func (s *sched) lockOp(ip *Interp, name string, recv Value) {}
func (s *sched) finish(ip *Interp)                          {}
