package eng

import (
	"fmt"
	"go/token"
	"go/types"
	"math"
	"unicode/utf8"

	"golang.org/x/tools/go/ssa"
)

func (ip *Interp) unop(instr *ssa.UnOp, x Value) Value {
	switch instr.Op {
	case token.MUL:
		return ip.load(instr.Type(), x)
	case token.SUB:
		switch x := x.(type) {
		case *Term:
			if x.Sort.IsFP() {
				return ip.TC.FNeg(x)
			}
			return ip.TC.Neg(x)
		case Complex:
			return Complex{-x.C}
		}
	case token.NOT:
		return ip.TC.Not(ip.term(x))
	case token.XOR:
		return ip.TC.BNot(ip.term(x))
	case token.ARROW:
		ip.unsupported("channel receive")
	}
	ip.unsupported("unop %v on %T", instr.Op, x)
	return nil
}

func (ip *Interp) strEq(a, b Str) *Term {
	if a.Len() != b.Len() {
		return tFalse
	}
	if a.Concrete() && b.Concrete() {
		return Bool(a.S == b.S)
	}
	r := tTrue
	for i := a.Len() - 1; i >= 0; i-- {
		r = ip.TC.And(ip.TC.Eq(a.At(i), b.At(i)), r)
		if r == tFalse {
			return r
		}
	}
	return r
}

// strLt returns a<b (strict=true) or a<=b lexicographically by bytes.
func (ip *Interp) strLt(a, b Str, strict bool) *Term {
	if a.Concrete() && b.Concrete() {
		if strict {
			return Bool(a.S < b.S)
		}
		return Bool(a.S <= b.S)
	}
	n := a.Len()
	if b.Len() < n {
		n = b.Len()
	}
	// result when common prefix equal
	var r *Term
	if strict {
		r = Bool(a.Len() < b.Len())
	} else {
		r = Bool(a.Len() <= b.Len())
	}
	for i := n - 1; i >= 0; i-- {
		x, y := a.At(i), b.At(i)
		r = ip.TC.Ite(ip.TC.ULt(x, y), tTrue, ip.TC.Ite(ip.TC.Eq(x, y), r, tFalse))
	}
	return r
}

func (ip *Interp) binop(op token.Token, t types.Type, x, y Value) Value {
	tc := ip.TC
	switch x := x.(type) {
	case Str:
		y := y.(Str)
		switch op {
		case token.ADD:
			return concatStr(x, y)
		case token.EQL:
			return ip.strEq(x, y)
		case token.NEQ:
			return tc.Not(ip.strEq(x, y))
		case token.LSS:
			return ip.strLt(x, y, true)
		case token.LEQ:
			return ip.strLt(x, y, false)
		case token.GTR:
			return ip.strLt(y, x, true)
		case token.GEQ:
			return ip.strLt(y, x, false)
		}
	case *Term:
		y, ok := y.(*Term)
		if !ok {
			ip.unsupported("binop operand %T", y)
		}
		if x.Sort == SBool {
			switch op {
			case token.EQL:
				return tc.Eq(x, y)
			case token.NEQ:
				return tc.Not(tc.Eq(x, y))
			case token.AND, token.LAND:
				return tc.And(x, y)
			case token.OR, token.LOR:
				return tc.Or(x, y)
			}
			break
		}
		if x.Sort.IsFP() {
			switch op {
			case token.ADD:
				return tc.FAdd(x, y)
			case token.SUB:
				return tc.FSub(x, y)
			case token.MUL:
				return tc.FMul(x, y)
			case token.QUO:
				return tc.FDiv(x, y)
			case token.EQL:
				return tc.FEq(x, y)
			case token.NEQ:
				return tc.Not(tc.FEq(x, y))
			case token.LSS:
				return tc.FLt(x, y)
			case token.LEQ:
				return tc.FLe(x, y)
			case token.GTR:
				return tc.FLt(y, x)
			case token.GEQ:
				return tc.FLe(y, x)
			}
			break
		}
		signed := isSigned(t)
		switch op {
		case token.ADD:
			return tc.Add(x, y)
		case token.SUB:
			return tc.Sub(x, y)
		case token.MUL:
			return tc.Mul(x, y)
		case token.QUO, token.REM:
			isZero := tc.Eq(y, Const(y.Sort, 0))
			if ip.condT(isZero) {
				ip.rtPanic("integer divide by zero")
			}
			if op == token.QUO {
				if signed {
					return tc.SDiv(x, y)
				}
				return tc.UDiv(x, y)
			}
			if signed {
				return tc.SRem(x, y)
			}
			return tc.URem(x, y)
		case token.AND:
			return tc.BAnd(x, y)
		case token.OR:
			return tc.BOr(x, y)
		case token.XOR:
			return tc.BXor(x, y)
		case token.AND_NOT:
			return tc.BAnd(x, tc.BNot(y))
		case token.SHL, token.SHR:
			return ip.shift(op, signed, x, y)
		case token.EQL:
			return tc.Eq(x, y)
		case token.NEQ:
			return tc.Not(tc.Eq(x, y))
		case token.LSS:
			if signed {
				return tc.SLt(x, y)
			}
			return tc.ULt(x, y)
		case token.LEQ:
			if signed {
				return tc.SLe(x, y)
			}
			return tc.ULe(x, y)
		case token.GTR:
			if signed {
				return tc.SLt(y, x)
			}
			return tc.ULt(y, x)
		case token.GEQ:
			if signed {
				return tc.SLe(y, x)
			}
			return tc.ULe(y, x)
		}
	case Complex:
		y := y.(Complex)
		switch op {
		case token.ADD:
			return Complex{x.C + y.C}
		case token.SUB:
			return Complex{x.C - y.C}
		case token.MUL:
			return Complex{x.C * y.C}
		case token.QUO:
			return Complex{x.C / y.C}
		case token.EQL:
			return Bool(x.C == y.C)
		case token.NEQ:
			return Bool(x.C != y.C)
		}
	default:
		switch op {
		case token.EQL:
			return ip.equals(t, x, y)
		case token.NEQ:
			return tc.Not(ip.equals(t, x, y))
		}
	}
	ip.unsupported("binop %v on %T,%T", op, x, y)
	return nil
}

func (ip *Interp) condT(t *Term) bool {
	if t.IsConst() {
		return t.C == 1
	}
	return ip.W.Branch(t)
}

func (ip *Interp) shift(op token.Token, signed bool, x, y *Term) *Term {
	tc := ip.TC
	w := uint64(x.Sort.Bits())
	// Note: a negative signed shift count panics in Go; SSA inserts no check, the runtime does.
	// We treat the count as unsigned after a sign check when the count is a signed symbolic value
	// is not known here (type of y not passed); counts in this code base are unsigned or constants.
	var yy *Term
	var tooBig *Term
	switch {
	case y.Sort == x.Sort:
		yy = y
		tooBig = tFalse // SMT semantics already give 0 / sign fill for >= width
	case y.Sort.Bits() < x.Sort.Bits():
		yy = tc.Zext(y, x.Sort)
		tooBig = tFalse
	default:
		tooBig = tc.ULe(Const(y.Sort, w), y)
		yy = tc.Extract(y, x.Sort.Bits()-1, 0)
	}
	var r, over *Term
	switch {
	case op == token.SHL:
		r, over = tc.Shl(x, yy), Const(x.Sort, 0)
	case signed:
		r = tc.AShr(x, yy)
		over = tc.AShr(x, Const(x.Sort, w-1))
	default:
		r, over = tc.LShr(x, yy), Const(x.Sort, 0)
	}
	return tc.Ite(tooBig, over, r)
}

// equals returns a Bool term for x == y at static type t.
func (ip *Interp) equals(t types.Type, x, y Value) *Term {
	tc := ip.TC
	switch x := x.(type) {
	case *Term:
		yt, ok := y.(*Term)
		if !ok {
			return tFalse
		}
		if x.Sort != yt.Sort {
			return tFalse
		}
		return tc.Eq(x, yt)
	case Str:
		ys, ok := y.(Str)
		if !ok {
			return tFalse
		}
		return ip.strEq(x, ys)
	case Ptr:
		switch y := y.(type) {
		case Ptr:
			return Bool(x.C == y.C)
		case SymPtr:
			return ip.equals(t, x, ip.toPtr(y))
		}
		return tFalse
	case SymPtr:
		return ip.equals(t, ip.toPtr(x), y)
	case Iface:
		y, ok := y.(Iface)
		if !ok {
			ip.unsupported("compare iface with %T", y)
		}
		if x.T == nil || y.T == nil {
			return Bool(x.T == nil && y.T == nil)
		}
		if !types.Identical(x.T, y.T) {
			return tFalse
		}
		if !types.Comparable(x.T) {
			ip.rtPanic("comparing uncomparable type " + typeString(x.T))
		}
		return ip.equals(x.T, x.V, y.V)
	case Struct:
		y := y.(Struct)
		r := tTrue
		var st *types.Struct
		if t != nil {
			st, _ = t.Underlying().(*types.Struct)
		}
		for i := range x {
			var ft types.Type
			if st != nil {
				ft = st.Field(i).Type()
				if st.Field(i).Name() == "_" {
					continue
				}
			}
			r = tc.And(r, ip.equals(ft, x[i], y[i]))
		}
		return r
	case Array:
		y := y.(Array)
		r := tTrue
		var et types.Type
		if t != nil {
			if at, ok := t.Underlying().(*types.Array); ok {
				et = at.Elem()
			}
		}
		for i := range x {
			r = tc.And(r, ip.equals(et, x[i], y[i]))
		}
		return r
	case Slice:
		// only comparison with nil is legal
		if ys, ok := y.(Slice); ok {
			if ys.A == nil {
				return Bool(x.A == nil)
			}
			if x.A == nil {
				return Bool(ys.A == nil)
			}
		}
		ip.unsupported("slice comparison")
	case *Map:
		ym, _ := y.(*Map)
		if x == nil || ym == nil {
			return Bool(x == nil && ym == nil)
		}
		return Bool(x == ym)
	case *Closure:
		switch y := y.(type) {
		case *Closure:
			if x == nil || y == nil {
				return Bool(x == nil && y == nil)
			}
			return Bool(x == y)
		}
		return Bool(false)
	case *ssa.Function:
		switch y := y.(type) {
		case *Closure:
			return Bool(y == nil && x == nil)
		case *ssa.Function:
			return Bool(x == y)
		}
		return tFalse
	case *Native:
		if yc, ok := y.(*Closure); ok && yc == nil {
			return tFalse
		}
		return Bool(x == y)
	case *RV:
		y := y.(*RV)
		return ip.rvStructEq(x, y)
	case RType:
		y, ok := y.(RType)
		if !ok {
			return tFalse
		}
		return Bool(types.Identical(x.T, y.T))
	case Opaque:
		y, ok := y.(Opaque)
		return Bool(ok && x.V == y.V)
	case Complex:
		y := y.(Complex)
		return Bool(x.C == y.C)
	}
	ip.unsupported("equals on %T", x)
	return nil
}

func (ip *Interp) conv(dst, src types.Type, x Value) Value {
	tc := ip.TC
	ud, us := dst.Underlying(), src.Underlying()
	switch ud := ud.(type) {
	case *types.Pointer:
		// *T <- unsafe.Pointer or pointer conversions
		return x
	case *types.Slice:
		// []byte/[]rune <- string
		s, ok := x.(Str)
		if !ok {
			return x
		}
		eb := ud.Elem().Underlying().(*types.Basic)
		switch eb.Kind() {
		case types.Uint8:
			bs := s.Bytes()
			a := make([]Value, len(bs))
			for i, b := range bs {
				a[i] = b
			}
			return Slice{A: a, O: ip.newObj(ud.Elem(), "conv")}
		case types.Int32:
			var a []Value
			for i := 0; i < s.Len(); {
				r, w := ip.decodeRune(s, i)
				a = append(a, r)
				i += w
			}
			if a == nil {
				a = []Value{}
			}
			return Slice{A: a, O: ip.newObj(ud.Elem(), "conv")}
		}
	case *types.Basic:
		if ud.Kind() == types.UnsafePointer {
			return x
		}
		if ud.Info()&types.IsString != 0 {
			switch x := x.(type) {
			case Str:
				return x
			case *Term:
				// integer -> string
				var r *Term
				if isSigned(src) {
					r = tc.Resize(x, SBV64, true)
					// out of int32 range -> RuneError
					fits := tc.And(tc.SLe(Const(SBV64, 0), r), tc.SLe(r, Const(SBV64, 0x10FFFF)))
					r32 := tc.Ite(fits, tc.Extract(r, 31, 0), Const(SBV32, 0xFFFD))
					return ip.encodeRune(r32)
				}
				r = tc.Resize(x, SBV64, false)
				fits := tc.ULe(r, Const(SBV64, 0x10FFFF))
				r32 := tc.Ite(fits, tc.Extract(r, 31, 0), Const(SBV32, 0xFFFD))
				return ip.encodeRune(r32)
			case Slice:
				if sl, ok := us.(*types.Slice); ok {
					eb := sl.Elem().Underlying().(*types.Basic)
					if eb.Kind() == types.Uint8 {
						bs := make([]*Term, len(x.A))
						for i, v := range x.A {
							bs[i] = v.(*Term)
						}
						return normStr(bs)
					}
					// []rune -> string
					res := Str{}
					for _, v := range x.A {
						res = concatStr(res, ip.encodeRune(v.(*Term)))
					}
					return res
				}
			}
			break
		}
		xt, ok := x.(*Term)
		if !ok {
			if c, ok := x.(Complex); ok {
				return c
			}
			break
		}
		ds, ok := sortOfBasic(ud)
		if !ok {
			break
		}
		sb, _ := us.(*types.Basic)
		if sb == nil {
			break
		}
		switch {
		case ds.IsBV() && xt.Sort.IsBV():
			return tc.Resize(xt, ds, isSigned(src))
		case ds.IsFP() && xt.Sort.IsBV():
			if isSigned(src) {
				return tc.FFromSBV(xt, ds)
			}
			return tc.FFromUBV(xt, ds)
		case ds.IsBV() && xt.Sort.IsFP():
			if isSigned(dst) {
				return tc.FToSBV(xt, ds)
			}
			return tc.FToUBV(xt, ds)
		case ds.IsFP() && xt.Sort.IsFP():
			return tc.FToFP(xt, ds)
		case ds == SBool && xt.Sort == SBool:
			return xt
		}
	}
	ip.unsupported("conversion %v <- %v (%T)", dst, src, x)
	return nil
}

// decodeRune decodes the rune at byte offset i of s (Go/utf8.DecodeRuneInString semantics).
// It forks at most on the encoded width.
func (ip *Interp) decodeRune(s Str, i int) (*Term, int) {
	tc := ip.TC
	n := s.Len() - i
	if s.Concrete() {
		r, w := utf8.DecodeRuneInString(s.S[i:])
		return Const(SBV32, uint64(uint32(r))), w
	}
	b0 := s.At(i)
	in := func(b *Term, lo, hi uint64) *Term {
		return tc.And(tc.ULe(Const(SBV8, lo), b), tc.ULe(b, Const(SBV8, hi)))
	}
	z := func(b *Term) *Term { return tc.Zext(b, SBV32) }
	cont := func(b *Term) *Term { return in(b, 0x80, 0xBF) }
	c32 := func(v uint64) *Term { return Const(SBV32, v) }
	// 2-byte
	if n >= 2 {
		b1 := s.At(i + 1)
		c2 := tc.And(in(b0, 0xC2, 0xDF), cont(b1))
		if ip.condT(c2) {
			r := tc.BOr(tc.Shl(tc.BAnd(z(b0), c32(0x1F)), c32(6)), tc.BAnd(z(b1), c32(0x3F)))
			return r, 2
		}
	}
	if n >= 3 {
		b1, b2 := s.At(i+1), s.At(i+2)
		sec := tc.Or(tc.And(tc.Eq(b0, Const(SBV8, 0xE0)), in(b1, 0xA0, 0xBF)),
			tc.Or(tc.And(tc.Or(in(b0, 0xE1, 0xEC), in(b0, 0xEE, 0xEF)), cont(b1)),
				tc.And(tc.Eq(b0, Const(SBV8, 0xED)), in(b1, 0x80, 0x9F))))
		c3 := tc.And(sec, cont(b2))
		if ip.condT(c3) {
			r := tc.BOr(tc.BOr(tc.Shl(tc.BAnd(z(b0), c32(0x0F)), c32(12)), tc.Shl(tc.BAnd(z(b1), c32(0x3F)), c32(6))), tc.BAnd(z(b2), c32(0x3F)))
			return r, 3
		}
	}
	if n >= 4 {
		b1, b2, b3 := s.At(i+1), s.At(i+2), s.At(i+3)
		sec := tc.Or(tc.And(tc.Eq(b0, Const(SBV8, 0xF0)), in(b1, 0x90, 0xBF)),
			tc.Or(tc.And(in(b0, 0xF1, 0xF3), cont(b1)),
				tc.And(tc.Eq(b0, Const(SBV8, 0xF4)), in(b1, 0x80, 0x8F))))
		c4 := tc.And(tc.And(sec, cont(b2)), cont(b3))
		if ip.condT(c4) {
			r := tc.BOr(tc.BOr(tc.Shl(tc.BAnd(z(b0), c32(0x07)), c32(18)), tc.Shl(tc.BAnd(z(b1), c32(0x3F)), c32(12))),
				tc.BOr(tc.Shl(tc.BAnd(z(b2), c32(0x3F)), c32(6)), tc.BAnd(z(b3), c32(0x3F))))
			return r, 4
		}
	}
	// ASCII or invalid: width 1
	return tc.Ite(tc.ULt(b0, Const(SBV8, 0x80)), z(b0), c32(0xFFFD)), 1
}

// encodeRune returns string(rune) for a 32-bit rune term (invalid runes give U+FFFD).
func (ip *Interp) encodeRune(r *Term) Str {
	tc := ip.TC
	if r.IsConst() {
		return MkStr(string(rune(int32(r.C))))
	}
	c32 := func(v uint64) *Term { return Const(SBV32, v) }
	b := func(t *Term) *Term { return tc.Extract(t, 7, 0) }
	// signed: negative -> invalid
	valid := tc.And(tc.SLe(c32(0), r), tc.And(tc.SLe(r, c32(0x10FFFF)), tc.Not(tc.And(tc.SLe(c32(0xD800), r), tc.SLe(r, c32(0xDFFF))))))
	if !ip.condT(valid) {
		return MkStr("�")
	}
	if ip.condT(tc.ULt(r, c32(0x80))) {
		return Str{Sym: []*Term{b(r)}}
	}
	if ip.condT(tc.ULt(r, c32(0x800))) {
		return Str{Sym: []*Term{
			b(tc.BOr(c32(0xC0), tc.LShr(r, c32(6)))),
			b(tc.BOr(c32(0x80), tc.BAnd(r, c32(0x3F)))),
		}}
	}
	if ip.condT(tc.ULt(r, c32(0x10000))) {
		return Str{Sym: []*Term{
			b(tc.BOr(c32(0xE0), tc.LShr(r, c32(12)))),
			b(tc.BOr(c32(0x80), tc.BAnd(tc.LShr(r, c32(6)), c32(0x3F)))),
			b(tc.BOr(c32(0x80), tc.BAnd(r, c32(0x3F)))),
		}}
	}
	return Str{Sym: []*Term{
		b(tc.BOr(c32(0xF0), tc.LShr(r, c32(18)))),
		b(tc.BOr(c32(0x80), tc.BAnd(tc.LShr(r, c32(12)), c32(0x3F)))),
		b(tc.BOr(c32(0x80), tc.BAnd(tc.LShr(r, c32(6)), c32(0x3F)))),
		b(tc.BOr(c32(0x80), tc.BAnd(r, c32(0x3F)))),
	}}
}

func (ip *Interp) sliceBound(v Value, def int64, max int64) int64 {
	if v == nil {
		return def
	}
	t := ip.term(v)
	if t.Sort != SBV64 {
		t = ip.TC.Sext(t, SBV64)
	}
	if t.IsConst() {
		return t.Int()
	}
	// in range [0,max]? otherwise a target panic
	inRange := ip.TC.ULe(t, Const(SBV64, uint64(max)))
	if !ip.W.Branch(inRange) {
		ip.rtPanic("slice bounds out of range [sym]")
	}
	return ip.W.ConcretizeRange(t, 0, max)
}

func (ip *Interp) slice(instr *ssa.Slice, x, lo, hi, max Value) Value {
	var length, capacity int64
	switch x := x.(type) {
	case Str:
		length = int64(x.Len())
		capacity = length
	case Slice:
		length = int64(len(x.A))
		capacity = int64(cap(x.A))
	case Ptr:
		if x.C == nil {
			ip.rtPanic("invalid memory address or nil pointer dereference")
		}
		a := (*x.C).(Array)
		length = int64(len(a))
		capacity = length
	case SymPtr:
		return ip.slice(instr, ip.toPtr(x), lo, hi, max)
	default:
		ip.unsupported("slice of %T", x)
	}
	l := ip.sliceBound(lo, 0, capacity)
	h := ip.sliceBound(hi, length, capacity)
	m := ip.sliceBound(max, capacity, capacity)
	if _, isStr := x.(Str); isStr {
		if h < 0 || h > length {
			ip.rtPanic(fmt.Sprintf("slice bounds out of range [:%d] with length %d", h, length))
		}
	} else if m < 0 || m > capacity {
		ip.rtPanic(fmt.Sprintf("slice bounds out of range [::%d] with capacity %d", m, capacity))
	} else if h < 0 || h > m {
		ip.rtPanic(fmt.Sprintf("slice bounds out of range [:%d] with capacity %d", h, m))
	}
	if l < 0 || l > h {
		ip.rtPanic(fmt.Sprintf("slice bounds out of range [%d:%d]", l, h))
	}
	switch x := x.(type) {
	case Str:
		return x.Slice(int(l), int(h))
	case Slice:
		if x.A == nil {
			return Slice{}
		}
		return Slice{A: x.A[l:h:m], O: x.O}
	case Ptr:
		a := (*x.C).(Array)
		return Slice{A: []Value(a)[l:h:m], O: x.O}
	}
	return nil
}

func (ip *Interp) typeAssert(instr *ssa.TypeAssert, xv Value) Value {
	x, ok := xv.(Iface)
	if !ok {
		ip.unsupported("typeAssert on %T", xv)
	}
	var v Value
	err := ""
	if idst, ok := instr.AssertedType.Underlying().(*types.Interface); ok {
		if x.T == nil {
			err = "interface conversion: interface is nil, not " + typeString(instr.AssertedType)
		} else if ip.implements(x.T, idst) {
			v = x
		} else {
			err = fmt.Sprintf("interface conversion: %s is not %s: missing method", typeString(x.T), typeString(instr.AssertedType))
		}
	} else {
		if x.T != nil && types.Identical(x.T, instr.AssertedType) {
			v = copyVal(x.V)
		} else if x.T == nil {
			err = "interface conversion: interface is nil, not " + typeString(instr.AssertedType)
		} else {
			err = fmt.Sprintf("interface conversion: interface is %s, not %s", typeString(x.T), typeString(instr.AssertedType))
		}
	}
	if err != "" {
		if !instr.CommaOk {
			ip.rtPanic(err)
		}
		return Tuple{zero(instr.AssertedType), tFalse}
	}
	if instr.CommaOk {
		return Tuple{v, tTrue}
	}
	return v
}

func (ip *Interp) implements(t types.Type, i *types.Interface) bool {
	if i.NumMethods() == 0 {
		return true
	}
	return types.Implements(t, i)
}

// ---------- maps ----------

func (ip *Interp) keyEq(m *Map, a, b Value) *Term {
	return ip.equals(m.KT, a, b)
}

func (ip *Interp) mapFind(m *Map, key Value) int {
	if ip.W != nil && ip.W.sched != nil {
		ip.W.sched.accessMap(ip, m, false)
	}
	if m == nil {
		return -1
	}
	if ik, ok := key.(Iface); ok && ik.T != nil && !types.Comparable(ik.T) {
		ip.rtPanic("hash of unhashable type " + typeString(ik.T))
	}
	for i, k := range m.Keys {
		if ip.condT(ip.keyEq(m, k, key)) {
			return i
		}
	}
	return -1
}

func (ip *Interp) mapGet(m *Map, key Value) (Value, bool) {
	i := ip.mapFind(m, key)
	if i < 0 {
		return nil, false
	}
	return m.Vals[i], true
}

func (ip *Interp) mapJournal(m *Map) {
	if m.O == nil || m.O.Epoch == 0 {
		if !ip.inInit {
			ip.journal = append(ip.journal, journalEntry{m: m, mk: m.Keys, mv: m.Vals})
			// copy-on-write so the saved slices stay intact
			m.Keys = append([]Value(nil), m.Keys...)
			m.Vals = append([]Value(nil), m.Vals...)
		}
	}
}

func (ip *Interp) mapUpdate(m *Map, key, val Value) {
	if m == nil {
		ip.rtPanic("assignment to entry in nil map")
	}
	ip.checkWrite(m.O, "map update")
	if ip.W != nil && ip.W.sched != nil {
		ip.W.sched.accessMap(ip, m, true)
	}
	i := ip.mapFind(m, key)
	ip.mapJournal(m)
	if i >= 0 {
		m.Vals[i] = copyVal(val)
		return
	}
	m.Keys = append(m.Keys, copyVal(key))
	m.Vals = append(m.Vals, copyVal(val))
}

func (ip *Interp) mapDelete(m *Map, key Value) {
	if m == nil {
		return
	}
	i := ip.mapFind(m, key)
	if i < 0 {
		return
	}
	ip.checkWrite(m.O, "map delete")
	ip.mapJournal(m)
	m.Keys = append(append([]Value(nil), m.Keys[:i]...), m.Keys[i+1:]...)
	m.Vals = append(append([]Value(nil), m.Vals[:i]...), m.Vals[i+1:]...)
}

// ---------- iteration ----------

type iter interface {
	next(ip *Interp) Tuple
}

type strIter struct {
	s Str
	i int
}

func (it *strIter) next(ip *Interp) Tuple {
	if it.i >= it.s.Len() {
		return Tuple{tFalse, Const(SBV64, 0), Const(SBV32, 0)}
	}
	r, w := ip.decodeRune(it.s, it.i)
	res := Tuple{tTrue, Const(SBV64, uint64(it.i)), r}
	it.i += w
	return res
}

type mapIter struct {
	m     *Map
	keys  []Value
	i     int
	order []int
}

func (it *mapIter) next(ip *Interp) Tuple {
	for it.i < len(it.keys) {
		k := it.keys[it.order[it.i]]
		it.i++
		// entry may have been deleted during iteration
		if v, ok := ip.mapGet(it.m, k); ok {
			return Tuple{tTrue, copyVal(k), copyVal(v)}
		}
	}
	return Tuple{tFalse, nil, nil}
}

func (ip *Interp) rangeIter(x Value, t types.Type) iter {
	switch x := x.(type) {
	case Str:
		return &strIter{s: x}
	case *Map:
		it := &mapIter{m: x}
		if x != nil && ip.W != nil && ip.W.sched != nil {
			ip.W.sched.accessMap(ip, x, false)
		}
		if x != nil {
			it.keys = append([]Value(nil), x.Keys...)
			it.order = ip.W.mapOrder(len(it.keys))
		}
		return it
	}
	ip.unsupported("range over %T", x)
	return nil
}

// ---------- builtins ----------

func (ip *Interp) callBuiltin(caller *frame, pos token.Pos, fn *ssa.Builtin, args []Value) Value {
	switch fn.Name() {
	case "append":
		if len(args) == 1 {
			return args[0]
		}
		dst := args[0].(Slice)
		var src []Value
		switch s := args[1].(type) {
		case Slice:
			src = s.A
		case Str:
			for _, b := range s.Bytes() {
				src = append(src, b)
			}
		default:
			ip.unsupported("append of %T", s)
		}
		if len(src) == 0 {
			return dst
		}
		n := len(dst.A) + len(src)
		if n <= cap(dst.A) {
			// in place growth: writes into the shared backing array
			ip.checkWrite(dst.O, "append in place")
			a := dst.A[:n]
			for i, v := range src {
				ip.setCell(&a[len(dst.A)+i], dst.O, copyVal(v))
			}
			return Slice{A: a, O: dst.O}
		}
		newCap := n
		if c := 2 * cap(dst.A); c > newCap && len(dst.A) < 256 {
			newCap = c
		}
		a := make([]Value, n, newCap)
		for i, v := range dst.A {
			a[i] = copyVal(v)
		}
		for i, v := range src {
			a[len(dst.A)+i] = copyVal(v)
		}
		// zero-fill spare capacity lazily: fill with zero of elem type so that re-slicing works
		var et types.Type
		if st, ok := fn.Type().(*types.Signature); ok && st.Params().Len() > 0 {
			if sl, ok := st.Params().At(0).Type().Underlying().(*types.Slice); ok {
				et = sl.Elem()
			}
		}
		if et != nil {
			full := a[:newCap]
			for i := n; i < newCap; i++ {
				full[i] = zero(et)
			}
		}
		return Slice{A: a, O: ip.newObj(et, "append")}
	case "copy":
		dst := args[0].(Slice)
		var src []Value
		switch s := args[1].(type) {
		case Slice:
			src = s.A
		case Str:
			for _, b := range s.Bytes() {
				src = append(src, b)
			}
		}
		n := len(dst.A)
		if len(src) < n {
			n = len(src)
		}
		if n > 0 {
			ip.checkWrite(dst.O, "copy")
		}
		tmp := make([]Value, n)
		for i := 0; i < n; i++ {
			tmp[i] = copyVal(src[i])
		}
		for i := 0; i < n; i++ {
			ip.setCell(&dst.A[i], dst.O, tmp[i])
		}
		return Const(SBV64, uint64(n))
	case "len":
		switch x := args[0].(type) {
		case Str:
			return Const(SBV64, uint64(x.Len()))
		case Slice:
			return Const(SBV64, uint64(len(x.A)))
		case Array:
			return Const(SBV64, uint64(len(x)))
		case Ptr:
			return Const(SBV64, uint64(len((*x.C).(Array))))
		case *Map:
			if x == nil {
				return Const(SBV64, 0)
			}
			return Const(SBV64, uint64(len(x.Keys)))
		}
	case "cap":
		switch x := args[0].(type) {
		case Slice:
			return Const(SBV64, uint64(cap(x.A)))
		case Array:
			return Const(SBV64, uint64(len(x)))
		case Ptr:
			return Const(SBV64, uint64(len((*x.C).(Array))))
		}
	case "delete":
		m, _ := args[0].(*Map)
		ip.mapDelete(m, args[1])
		return nil
	case "panic":
		panic(&targetPanic{V: args[0], Site: ip.curFnName(), Msg: ip.panicText(args[0])})
	case "recover":
		return ip.doRecover(caller)
	case "print", "println":
		return nil
	case "min", "max":
		r := args[0]
		for _, a := range args[1:] {
			r = ip.minmax(fn.Name() == "min", fn, r, a)
		}
		return r
	case "clear":
		switch x := args[0].(type) {
		case *Map:
			if x != nil {
				ip.mapJournal(x)
				x.Keys, x.Vals = nil, nil
			}
			return nil
		}
	case "ssa:wrapnilchk":
		recv := args[0]
		if p, ok := recv.(Ptr); ok && p.C == nil {
			ip.rtPanic("value method called using nil pointer")
		}
		return recv
	}
	ip.unsupported("builtin %s on %T", fn.Name(), args)
	return nil
}

func (ip *Interp) curFnName() string {
	if ip.curFn == nil {
		return ""
	}
	return ip.curFn.String()
}

func (ip *Interp) minmax(isMin bool, fn *ssa.Builtin, a, b Value) Value {
	tc := ip.TC
	switch x := a.(type) {
	case *Term:
		y := b.(*Term)
		var lt *Term
		if x.Sort.IsFP() {
			ip.unsupported("min/max on floats")
		}
		signed := true
		if sig, ok := fn.Type().(*types.Signature); ok && sig.Params().Len() > 0 {
			signed = isSigned(sig.Params().At(0).Type())
		}
		if signed {
			lt = tc.SLt(x, y)
		} else {
			lt = tc.ULt(x, y)
		}
		if isMin {
			return tc.Ite(lt, x, y)
		}
		return tc.Ite(lt, y, x)
	}
	ip.unsupported("min/max on %T", a)
	return nil
}

func (ip *Interp) doRecover(caller *frame) Value {
	// recover() is effective only when called directly by a deferred function while the
	// frame that deferred it is panicking.
	if caller != nil && !caller.panicking && caller.caller != nil && caller.caller.panicking {
		caller.caller.panicking = false
		p := caller.caller.panicVal
		caller.caller.panicVal = nil
		if iv, ok := p.V.(Iface); ok {
			return iv
		}
		return Iface{}
	}
	return Iface{}
}

var _ = math.Inf
