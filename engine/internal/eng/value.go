package eng

import (
	"fmt"
	"go/constant"
	"go/types"
	"strings"

	"golang.org/x/tools/go/ssa"
)

// Value is one of:
//
//	*Term                scalar (bool, ints, floats)
//	Str                  string
//	Struct, Array        aggregate values (copied on load/store)
//	Ptr                  pointer to a cell
//	Slice                slice header
//	Iface                interface value
//	*Map                 map
//	*Closure, *ssa.Function, *ssa.Builtin, *Native   function values
//	Tuple                multiple results
//	*RV                  reflect.Value (model)
//	Opaque               host object
//	Complex              complex numbers (concrete only)
type Value interface{}

type Struct []Value
type Array []Value
type Tuple []Value

// Obj is allocation metadata shared by every pointer/slice into one allocation.
type Obj struct {
	ID    int
	Epoch int
	Site  string
	T     types.Type // element / pointee type
}

type Ptr struct {
	C *Value
	O *Obj
}

func (p Ptr) IsNil() bool { return p.C == nil }

type Slice struct {
	A []Value // len/cap as Go slice
	O *Obj
}

func (s Slice) IsNil() bool { return s.A == nil }

type Iface struct {
	T types.Type
	V Value
}

func (i Iface) IsNil() bool { return i.T == nil }

type Closure struct {
	Fn  *ssa.Function
	Env []Value
}

// Native is an intrinsic function value.
type Native struct {
	Name string
	Fn   func(ip *Interp, args []Value) Value
}

type Opaque struct {
	T types.Type
	V interface{}
}

type Complex struct{ C complex128 }

// Map is an insertion ordered association list.
type Map struct {
	O    *Obj
	Keys []Value
	Vals []Value
	KT   types.Type
	VT   types.Type
}

// ---------------- strings ----------------

// Str is a string with concrete length. If Sym == nil it is fully concrete (S).
type Str struct {
	S   string
	Sym []*Term
}

func MkStr(s string) Str { return Str{S: s} }

func (s Str) Len() int {
	if s.Sym != nil {
		return len(s.Sym)
	}
	return len(s.S)
}

func (s Str) Concrete() bool { return s.Sym == nil }

func (s Str) At(i int) *Term {
	if s.Sym != nil {
		return s.Sym[i]
	}
	return Const(SBV8, uint64(s.S[i]))
}

func (s Str) Slice(i, j int) Str {
	if s.Sym != nil {
		if i == j {
			return Str{}
		}
		return normStr(s.Sym[i:j])
	}
	return Str{S: s.S[i:j]}
}

// normStr builds a Str from byte terms, collapsing to a concrete string when possible.
func normStr(b []*Term) Str {
	if len(b) == 0 {
		return Str{}
	}
	for _, t := range b {
		if !t.IsConst() {
			return Str{Sym: b}
		}
	}
	var sb strings.Builder
	for _, t := range b {
		sb.WriteByte(byte(t.C))
	}
	return Str{S: sb.String()}
}

func (s Str) Bytes() []*Term {
	if s.Sym != nil {
		return s.Sym
	}
	r := make([]*Term, len(s.S))
	for i := 0; i < len(s.S); i++ {
		r[i] = Const(SBV8, uint64(s.S[i]))
	}
	return r
}

func concatStr(a, b Str) Str {
	if a.Len() == 0 {
		return b
	}
	if b.Len() == 0 {
		return a
	}
	if a.Sym == nil && b.Sym == nil {
		return Str{S: a.S + b.S}
	}
	r := make([]*Term, 0, a.Len()+b.Len())
	r = append(r, a.Bytes()...)
	r = append(r, b.Bytes()...)
	return Str{Sym: r}
}

func (s Str) String() string {
	if s.Sym == nil {
		return fmt.Sprintf("%q", s.S)
	}
	var sb strings.Builder
	sb.WriteString("sym\"")
	for _, t := range s.Sym {
		if t.IsConst() {
			fmt.Fprintf(&sb, "%c", rune(t.C))
		} else {
			sb.WriteString("?")
		}
	}
	sb.WriteString("\"")
	return sb.String()
}

// ---------------- type helpers ----------------

func sortOfBasic(b *types.Basic) (Sort, bool) {
	switch b.Kind() {
	case types.Bool, types.UntypedBool:
		return SBool, true
	case types.Int, types.Int64, types.Uint, types.Uint64, types.Uintptr, types.UntypedInt:
		return SBV64, true
	case types.Int32, types.Uint32, types.UntypedRune:
		return SBV32, true
	case types.Int16, types.Uint16:
		return SBV16, true
	case types.Int8, types.Uint8:
		return SBV8, true
	case types.Float64, types.UntypedFloat:
		return SFP64, true
	case types.Float32:
		return SFP32, true
	}
	return 0, false
}

func isSigned(t types.Type) bool {
	b, ok := t.Underlying().(*types.Basic)
	if !ok {
		return false
	}
	return b.Info()&types.IsInteger != 0 && b.Info()&types.IsUnsigned == 0
}

func isNamed(t types.Type, pkg, name string) bool {
	n, ok := types.Unalias(t).(*types.Named)
	if !ok {
		return false
	}
	o := n.Obj()
	return o.Name() == name && o.Pkg() != nil && o.Pkg().Path() == pkg
}

func isReflectValue(t types.Type) bool { return isNamed(t, "reflect", "Value") }

// zero returns the zero value of type t.
func zero(t types.Type) Value {
	if isReflectValue(t) {
		return &RV{}
	}
	switch u := t.Underlying().(type) {
	case *types.Basic:
		if u.Kind() == types.String || u.Kind() == types.UntypedString {
			return Str{}
		}
		if u.Kind() == types.UnsafePointer {
			return Ptr{}
		}
		if u.Kind() == types.Complex128 || u.Kind() == types.Complex64 || u.Kind() == types.UntypedComplex {
			return Complex{}
		}
		if u.Kind() == types.UntypedNil {
			return Iface{}
		}
		s, ok := sortOfBasic(u)
		if !ok {
			panic(fmt.Sprintf("zero: basic %v", u))
		}
		return Const(s, 0)
	case *types.Pointer:
		return Ptr{}
	case *types.Slice:
		return Slice{}
	case *types.Array:
		a := make(Array, u.Len())
		for i := range a {
			a[i] = zero(u.Elem())
		}
		return a
	case *types.Struct:
		s := make(Struct, u.NumFields())
		for i := range s {
			s[i] = zero(u.Field(i).Type())
		}
		return s
	case *types.Interface:
		return Iface{}
	case *types.Map:
		return (*Map)(nil)
	case *types.Signature:
		return (*Closure)(nil)
	case *types.Chan:
		return Opaque{T: t}
	case *types.Tuple:
		if u.Len() == 1 {
			return zero(u.At(0).Type())
		}
		r := make(Tuple, u.Len())
		for i := range r {
			r[i] = zero(u.At(i).Type())
		}
		return r
	}
	panic(fmt.Sprintf("zero: unhandled type %v (%T)", t, t.Underlying()))
}

func copyVal(v Value) Value {
	switch v := v.(type) {
	case Struct:
		r := make(Struct, len(v))
		for i, x := range v {
			r[i] = copyVal(x)
		}
		return r
	case Array:
		r := make(Array, len(v))
		for i, x := range v {
			r[i] = copyVal(x)
		}
		return r
	}
	return v
}

func constValue(c *ssa.Const) Value {
	if c.Value == nil {
		return zero(c.Type())
	}
	if t, ok := c.Type().Underlying().(*types.Basic); ok {
		switch t.Kind() {
		case types.String, types.UntypedString:
			if c.Value.Kind() == constant.String {
				return MkStr(constant.StringVal(c.Value))
			}
			return MkStr(string(rune(c.Int64())))
		case types.Bool, types.UntypedBool:
			return Bool(constant.BoolVal(c.Value))
		case types.Float64, types.UntypedFloat:
			return ConstF64(c.Float64())
		case types.Float32:
			return ConstF32(float32(c.Float64()))
		case types.Complex128, types.Complex64, types.UntypedComplex:
			return Complex{c.Complex128()}
		}
		s, ok := sortOfBasic(t)
		if ok {
			if t.Info()&types.IsUnsigned != 0 {
				return Const(s, c.Uint64())
			}
			return Const(s, uint64(c.Int64()))
		}
	}
	panic(fmt.Sprintf("constValue: %v", c))
}

func typeString(t types.Type) string {
	return types.TypeString(t, nil)
}
