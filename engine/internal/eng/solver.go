package eng

import (
	"bufio"
	"fmt"
	"io"
	"os"
	"os/exec"
	"regexp"
	"strconv"
	"strings"
	"time"
)

type Result int

const (
	Unsat Result = iota
	Sat
	Unknown
)

func (r Result) String() string { return [...]string{"unsat", "sat", "unknown"}[r] }

// Solver is one long-lived SMT solver process.
type Solver struct {
	Kind      string
	cmd       *exec.Cmd
	in        io.WriteCloser
	out       *bufio.Reader
	defined   map[int32]bool
	declared  map[string]bool
	ufs       map[string]bool
	TimeoutMs int
	Queries   int
	NSat      int
	NUnsat    int
	NUnknown  int
	Errors    int
	Time      time.Duration
	buf       strings.Builder
	LastErr   string
	asserted  []*Term
	FirstErr  string
	Log       io.Writer
}

func solverArgs(kind string, timeoutMs int) (string, []string) {
	switch kind {
	case "z3":
		return "z3", []string{"-in"}
	case "z3new":
		return "z3-new", []string{"-in"}
	case "cvc5":
		return "cvc5", []string{"--incremental", "--lang=smt2", "--produce-models", fmt.Sprintf("--tlimit-per=%d", timeoutMs)}
	case "cvc5int":
		return "cvc5", []string{"--incremental", "--lang=smt2", "--produce-models", "--solve-bv-as-int=sum", fmt.Sprintf("--tlimit-per=%d", timeoutMs)}
	}
	panic("unknown solver kind " + kind)
}

func NewSolver(kind string, timeoutMs int) (*Solver, error) {
	s := &Solver{Kind: kind, TimeoutMs: timeoutMs}
	if err := s.start(); err != nil {
		return nil, err
	}
	return s, nil
}

func (s *Solver) start() error {
	bin, args := solverArgs(s.Kind, s.TimeoutMs)
	s.cmd = exec.Command(bin, args...)
	in, err := s.cmd.StdinPipe()
	if err != nil {
		return err
	}
	out, err := s.cmd.StdoutPipe()
	if err != nil {
		return err
	}
	s.cmd.Stderr = nil
	if err := s.cmd.Start(); err != nil {
		return err
	}
	s.in = in
	s.out = bufio.NewReaderSize(out, 1<<16)
	s.defined = map[int32]bool{}
	s.declared = map[string]bool{}
	s.ufs = map[string]bool{}
	if strings.HasPrefix(s.Kind, "z3") {
		fmt.Fprintf(s.in, "(set-option :global-declarations true)\n(set-option :timeout %d)\n(set-option :produce-models true)\n", s.TimeoutMs)
	} else {
		fmt.Fprintf(s.in, "(set-option :global-declarations true)\n(set-logic ALL)\n")
	}
	s.asserted = s.asserted[:0]
	if f := os.Getenv("GOSYM_SMTLOG"); f != "" {
		lf, _ := os.OpenFile(f, os.O_CREATE|os.O_WRONLY|os.O_APPEND, 0o644)
		s.Log = lf
	}
	return nil
}

func (s *Solver) Close() {
	if s.cmd != nil {
		s.in.Close()
		s.cmd.Process.Kill()
		s.cmd.Wait()
		s.cmd = nil
	}
}

// Restart kills the process and starts a fresh one (used after TermCtx reset or a wedged solver).
func (s *Solver) Restart() error {
	s.Close()
	return s.start()
}

// declareVars declares the variables and uninterpreted functions below t (global declarations).
// expr renders t as a self-contained expression with let-bindings for its interior nodes.
func (s *Solver) expr(tc *TermCtx, t *Term) string {
	if t.IsConst() {
		return constSMT(t)
	}
	if t.Op == OVar {
		s.declare(t)
		return t.Name
	}
	type fr struct {
		t *Term
		i int
	}
	seen := map[int32]bool{}
	var order []*Term
	stack := []fr{{t, 0}}
	seen[t.id] = true
	for len(stack) > 0 {
		top := &stack[len(stack)-1]
		if top.i < len(top.t.A) {
			a := top.t.A[top.i]
			top.i++
			if a.IsConst() {
				continue
			}
			if a.Op == OVar {
				s.declare(a)
				continue
			}
			if !seen[a.id] {
				seen[a.id] = true
				stack = append(stack, fr{a, 0})
			}
			continue
		}
		u := top.t
		stack = stack[:len(stack)-1]
		if u.Op == OUF && !s.ufs[u.Name] {
			s.ufs[u.Name] = true
			s.buf.WriteString(tc.ufs[u.Name])
			s.buf.WriteByte('\n')
		}
		order = append(order, u)
	}
	if len(order) == 1 {
		return body(t)
	}
	var sb strings.Builder
	for _, u := range order[:len(order)-1] {
		fmt.Fprintf(&sb, "(let ((t%d %s)) ", u.id, body(u))
	}
	sb.WriteString(body(t))
	for range order[:len(order)-1] {
		sb.WriteByte(')')
	}
	return sb.String()
}

func (s *Solver) declare(v *Term) {
	if !s.declared[v.Name] {
		s.declared[v.Name] = true
		fmt.Fprintf(&s.buf, "(declare-const %s %s)\n", v.Name, v.Sort.SMT())
	}
}

var valRe = regexp.MustCompile(`\(\s*([A-Za-z_][A-Za-z0-9_!.]*)\s+(#x[0-9a-fA-F]+|#b[01]+|true|false)\s*\)`)

// Check decides satisfiability of the conjunction of assertions. If vars is non-nil and the
// result is Sat, a model for those variables is returned.
func (s *Solver) Check(tc *TermCtx, pc []*Term, extra *Term, vars []*Term) (Result, map[string]uint64) {
	start := time.Now()
	defer func() {
		s.Time += time.Since(start)
		if s.Log != nil {
			fmt.Fprintf(s.Log, "; check total %v\n", time.Since(start))
		}
	}()
	s.Queries++
	s.buf.Reset()
	// keep the path condition asserted incrementally, one level per conjunct
	common := 0
	for common < len(s.asserted) && common < len(pc) && s.asserted[common] == pc[common] {
		common++
	}
	if k := len(s.asserted) - common; k > 0 {
		fmt.Fprintf(&s.buf, "(pop %d)\n", k)
		s.asserted = s.asserted[:common]
	}
	for _, a := range pc[common:] {
		e := s.expr(tc, a)
		fmt.Fprintf(&s.buf, "(push 1)\n(assert %s)\n", e)
		s.asserted = append(s.asserted, a)
	}
	for _, v := range vars {
		s.declare(v)
	}
	if extra != nil {
		e := s.expr(tc, extra)
		fmt.Fprintf(&s.buf, "(push 1)\n(assert %s)\n", e)
	} else {
		s.buf.WriteString("(push 1)\n")
	}
	s.buf.WriteString("(check-sat)\n(echo \"@@CS@@\")\n")
	if s.Log != nil {
		io.WriteString(s.Log, s.buf.String())
	}
	if _, err := io.WriteString(s.in, s.buf.String()); err != nil {
		s.fail("write: " + err.Error())
		return Unknown, nil
	}
	tq := time.Now()
	if s.Log != nil {
		fmt.Fprintf(s.Log, "; prep+write took %v\n", time.Since(start))
	}
	lines, err := s.readUntil("@@CS@@")
	if s.Log != nil {
		fmt.Fprintf(s.Log, "; took %v\n", time.Since(tq))
	}
	if d := time.Since(tq); d > 3*time.Second && os.Getenv("GOSYM_PROGRESS") != "" {
		fmt.Fprintf(os.Stderr, "slow query (%v, %s): %.300s\n", d, s.Kind, s.buf.String())
	}
	if err != nil {
		s.fail("read: " + err.Error())
		return Unknown, nil
	}
	res := Unknown
	bad := false
	for _, l := range lines {
		switch {
		case l == "sat":
			res = Sat
		case l == "unsat":
			res = Unsat
		case l == "unknown" || l == "timeout":
			res = Unknown
		case strings.Contains(l, "error"):
			bad = true
			s.LastErr = l
			if s.FirstErr == "" {
				s.FirstErr = l + "\n--- query ---\n" + s.buf.String()
			}
		}
	}
	if bad {
		s.Errors++
		res = Unknown
	}
	var model map[string]uint64
	if res == Sat && len(vars) > 0 {
		model = map[string]uint64{}
		// ask in chunks
		for i := 0; i < len(vars); i += 200 {
			j := i + 200
			if j > len(vars) {
				j = len(vars)
			}
			var sb strings.Builder
			sb.WriteString("(get-value (")
			for _, v := range vars[i:j] {
				sb.WriteString(v.Name)
				sb.WriteByte(' ')
			}
			sb.WriteString("))\n(echo \"@@GV@@\")\n")
			io.WriteString(s.in, sb.String())
			tg := time.Now()
			ls, err := s.readUntil("@@GV@@")
			if s.Log != nil {
				fmt.Fprintf(s.Log, "%s; get-value took %v\n", sb.String(), time.Since(tg))
			}
			if err != nil {
				s.fail("read model: " + err.Error())
				return Unknown, nil
			}
			txt := strings.Join(ls, " ")
			if strings.Contains(txt, "(error") {
				s.Errors++
				s.LastErr = txt
			}
			for _, m := range valRe.FindAllStringSubmatch(txt, -1) {
				model[m[1]] = parseVal(m[2])
			}
		}
	}
	io.WriteString(s.in, "(pop 1)\n")
	switch res {
	case Sat:
		s.NSat++
	case Unsat:
		s.NUnsat++
	default:
		s.NUnknown++
	}
	return res, model
}

func parseVal(v string) uint64 {
	switch {
	case v == "true":
		return 1
	case v == "false":
		return 0
	case strings.HasPrefix(v, "#x"):
		u, _ := strconv.ParseUint(v[2:], 16, 64)
		return u
	case strings.HasPrefix(v, "#b"):
		u, _ := strconv.ParseUint(v[2:], 2, 64)
		return u
	}
	return 0
}

func (s *Solver) fail(msg string) {
	s.Errors++
	s.LastErr = msg
	s.Restart()
}

func (s *Solver) readUntil(marker string) ([]string, error) {
	var lines []string
	for {
		l, err := s.out.ReadString('\n')
		if err != nil {
			return lines, err
		}
		l = strings.TrimSpace(l)
		if strings.Contains(l, marker) {
			return lines, nil
		}
		if l != "" {
			lines = append(lines, l)
		}
	}
}
