package main

import (
	"encoding/json"
	"flag"
	"fmt"
	"os"
	"path/filepath"
	"regexp"
	"runtime/pprof"
	"sort"
	"strings"
	"time"

	"gosym/internal/eng"
)

// package keys -> (repo relative dir, package name, import path)
type pkgInfo struct {
	Rel  string
	Name string
	Path string
}

var pkgTable = map[string]pkgInfo{
	"jsonata": {".", "jsonata", "github.com/blues/jsonata-go"},
	"jparse":  {"jparse", "jparse", "github.com/blues/jsonata-go/jparse"},
	"jlib":    {"jlib", "jlib", "github.com/blues/jsonata-go/jlib"},
	"jxpath":  {"jlib/jxpath", "jxpath", "github.com/blues/jsonata-go/jlib/jxpath"},
	"jtypes":  {"jtypes", "jtypes", "github.com/blues/jsonata-go/jtypes"},
}

var (
	verifDir = envOr("VERIF_DIR", "/verif")
	repoDir  = envOr("VERIF_REPO", "/repo")
)

func envOr(k, d string) string {
	if v := os.Getenv(k); v != "" {
		return v
	}
	return d
}

const rp = "github.com/blues/jsonata-go"

// side-effect free scalar functions whose paths are merged into ite terms instead of forking the caller
var defaultMerge = []string{
	rp + "/jparse.isWhitespace", rp + "/jparse.isDigit", rp + "/jparse.isNonZeroDigit", rp + "/jparse.isRegexFlag",
	rp + "/jparse.lookupSymbol1", rp + "/jparse.lookupKeyword",
	"(*" + rp + "/jparse.lexer).acceptRunes2$1",
}

// genDir is this process's directory for generated harness files (one per process, so that several
// checks can run at the same time); directories left by processes that no longer exist are removed.
func genDir(key string) string {
	base := filepath.Join(verifDir, "out", "gen")
	if ents, err := os.ReadDir(base); err == nil {
		for _, e := range ents {
			i := strings.LastIndexByte(e.Name(), '-')
			if i < 0 {
				continue
			}
			if _, err := os.Stat("/proc/" + e.Name()[i+1:]); err != nil {
				os.RemoveAll(filepath.Join(base, e.Name()))
			}
		}
	}
	return filepath.Join(base, fmt.Sprintf("%s-%d", key, os.Getpid()))
}

var harnessFuncRe = regexp.MustCompile(`(?m)^func (VerifH_[A-Za-z0-9_]+)\(\)`)

// genOverlay writes the generated harness files for a package key under out/gen/<key>/ and returns
// the overlay (virtual path in repo -> real file) plus the list of harness names.
func genOverlay(key string) (map[string]string, []string, error) {
	info, ok := pkgTable[key]
	if !ok {
		return nil, nil, fmt.Errorf("unknown package key %s", key)
	}
	gen := genDir(key)
	os.RemoveAll(gen)
	if err := os.MkdirAll(gen, 0o755); err != nil {
		return nil, nil, err
	}
	overlay := map[string]string{}
	put := func(name string, content []byte) error {
		real := filepath.Join(gen, name)
		if err := os.WriteFile(real, content, 0o644); err != nil {
			return err
		}
		overlay[filepath.Join(repoDir, info.Rel, name)] = real
		return nil
	}
	for _, tmpl := range []struct{ src, dst string }{{"verifrt.go.tmpl", "zz_verif_rt.go"}, {"replay_test.go.tmpl", "zz_verif_replay_test.go"}} {
		b, err := os.ReadFile(filepath.Join(verifDir, "harness", "rt", tmpl.src))
		if err != nil {
			return nil, nil, err
		}
		b = []byte(strings.ReplaceAll(string(b), "PKGNAME", info.Name))
		if err := put(tmpl.dst, b); err != nil {
			return nil, nil, err
		}
	}
	files, _ := filepath.Glob(filepath.Join(verifDir, "harness", key, "*.go"))
	sort.Strings(files)
	var names []string
	for _, f := range files {
		b, err := os.ReadFile(f)
		if err != nil {
			return nil, nil, err
		}
		for _, m := range harnessFuncRe.FindAllStringSubmatch(string(b), -1) {
			names = append(names, m[1])
		}
		if err := put("zz_verif_"+filepath.Base(f), b); err != nil {
			return nil, nil, err
		}
	}
	var sb strings.Builder
	fmt.Fprintf(&sb, "//go:build verif\n\npackage %s\n\nvar verifHarnesses = map[string]func(){\n", info.Name)
	for _, n := range names {
		fmt.Fprintf(&sb, "\t%q: %s,\n", n, n)
	}
	sb.WriteString("}\n")
	if err := put("zz_verif_registry.go", []byte(sb.String())); err != nil {
		return nil, nil, err
	}
	// overlay json for `go test -overlay`
	oj, _ := json.MarshalIndent(map[string]interface{}{"Replace": overlay}, "", " ")
	os.WriteFile(filepath.Join(gen, "overlay.json"), oj, 0o644)
	return overlay, names, nil
}

func loadProgram(key string) (*eng.Program, []string, error) {
	overlay, names, err := genOverlay(key)
	if err != nil {
		return nil, nil, err
	}
	ov := map[string][]byte{}
	for virt, real := range overlay {
		if strings.HasSuffix(virt, "_test.go") {
			continue
		}
		b, err := os.ReadFile(real)
		if err != nil {
			return nil, nil, err
		}
		ov[virt] = b
	}
	info := pkgTable[key]
	p, err := eng.Load(eng.LoadConfig{Dir: repoDir, Patterns: []string{info.Path}, Overlay: ov, Tags: []string{"verif"}})
	if err != nil {
		return nil, nil, err
	}
	p.RepoPrefix = "github.com/blues/jsonata-go"
	for _, f := range defaultMerge {
		p.MergeFns[f] = true
	}
	return p, names, nil
}

func cmdRun(args []string) int {
	fs := flag.NewFlagSet("run", flag.ExitOnError)
	key := fs.String("pkg", "jparse", "package key")
	harness := fs.String("harness", "", "harness function")
	solver := fs.String("solver", "z3", "z3|z3new|cvc5|cvc5int")
	workers := fs.Int("workers", 16, "workers")
	budget := fs.Int64("budget", 2_000_000, "instruction budget per path")
	maxdec := fs.Int("maxdec", 2000, "max decisions per path")
	timeout := fs.Int("timeout", 20000, "solver timeout per query (ms)")
	maxpaths := fs.Int64("maxpaths", 0, "stop after this many paths")
	wall := fs.Duration("wall", 0, "wall-clock limit")
	trace := fs.Bool("trace", false, "trace instructions")
	verbose := fs.Bool("v", false, "verbose")
	params := fs.String("params", "", "N=3,K=2")
	permute := fs.Bool("permute-maps", false, "explore map iteration orders")
	prof := fs.String("cpuprofile", "", "write cpu profile")
	overrides := fs.String("override", "", "fn=harnessFn,...")
	fs.Parse(args)
	if *prof != "" {
		f, _ := os.Create(*prof)
		pprof.StartCPUProfile(f)
		defer pprof.StopCPUProfile()
	}
	t0 := time.Now()
	p, names, err := loadProgram(*key)
	if err != nil {
		fmt.Fprintln(os.Stderr, "load:", err)
		return 2
	}
	for _, kv := range strings.Split(*overrides, ",") {
		if parts := strings.SplitN(kv, "=", 2); len(parts) == 2 {
			p.Overrides[parts[0]] = parts[1]
		}
	}
	p.Verbose = *verbose
	fmt.Fprintf(os.Stderr, "loaded in %.1fs; harnesses: %v\n", time.Since(t0).Seconds(), names)
	cfg := eng.Config{Harness: *harness, Solver: *solver, Workers: *workers, Budget: *budget, MaxDec: *maxdec, TimeoutMs: *timeout,
		MaxPaths: *maxpaths, Trace: *trace, Verbose: *verbose, Params: map[string]int{}, PermuteMaps: *permute, SampleEvery: 50}
	if *wall > 0 {
		cfg.Deadline = time.Now().Add(*wall)
	}
	for _, kv := range strings.Split(*params, ",") {
		if kv == "" {
			continue
		}
		var k string
		var v int
		parts := strings.SplitN(kv, "=", 2)
		k = parts[0]
		fmt.Sscanf(parts[1], "%d", &v)
		cfg.Params[k] = v
	}
	ex, err := eng.NewExplorer(p, cfg)
	if err != nil {
		fmt.Fprintln(os.Stderr, err)
		return 2
	}
	t1 := time.Now()
	if err := ex.Run(); err != nil {
		fmt.Fprintln(os.Stderr, "run:", err)
		return 2
	}
	st := ex.Stats
	fmt.Printf("harness %s: %.1fs paths=%d completed=%d infeasible=%d panics=%d unwound=%d unsupported=%d\n", *harness, time.Since(t1).Seconds(),
		st.Paths, st.Completed, st.Infeasible, st.Panics, st.Unwound, st.Unsupported)
	fmt.Printf("  asserts=%d triv=%d unsat=%d sat=%d unknown=%d queries=%d solver-unknown=%d solver-errors=%d solver-time=%.1fs steps=%d maxdec=%d timedout=%v\n",
		st.Asserts, st.AssertTriv, st.AssertUnsat, st.AssertSat, st.AssertUnk, st.Queries, st.SolverUnk, st.SolverErrors, st.SolverTime.Seconds(), st.Steps, st.MaxDecisions, ex.TimedOut)
	for k, v := range st.Unsupp {
		fmt.Printf("  unsupported x%d: %s\n", v, k)
	}
	for k, v := range st.UnwoundMsgs {
		fmt.Printf("  unwound x%d: %s\n", v, k)
	}
	for k, v := range st.Reach {
		fmt.Printf("  reach %s: %d\n", k, v)
	}
	for _, f := range ex.SortedFindings() {
		b, _ := json.Marshal(f)
		fmt.Printf("FINDING %s\n", b)
	}
	return 0
}

func main() {
	if len(os.Args) < 2 {
		fmt.Fprintln(os.Stderr, "usage: gosym run|check|replay ...")
		os.Exit(2)
	}
	switch os.Args[1] {
	case "run":
		os.Exit(cmdRun(os.Args[2:]))
	case "check":
		os.Exit(cmdCheck(os.Args[2:]))
	case "replay":
		os.Exit(cmdReplay(os.Args[2:]))
	case "callees":
		os.Exit(cmdCallees(os.Args[2:]))
	}
	fmt.Fprintln(os.Stderr, "unknown command", os.Args[1])
	os.Exit(2)
}
