package main

import (
	"fmt"
	"sort"
	"strings"

	"golang.org/x/tools/go/ssa"
	"golang.org/x/tools/go/ssa/ssautil"
)

// cmdCallees lists external (non-repo) functions called statically from repo code, with counts.
func cmdCallees(args []string) int {
	key := "jsonata"
	if len(args) > 0 {
		key = args[0]
	}
	p, _, err := loadProgram(key)
	if err != nil {
		fmt.Println(err)
		return 2
	}
	counts := map[string]int{}
	for fn := range ssautil.AllFunctions(p.Prog) {
		if fn.Pkg == nil || !strings.HasPrefix(fn.Pkg.Pkg.Path(), rp) {
			continue
		}
		for _, b := range fn.Blocks {
			for _, in := range b.Instrs {
				var cc *ssa.CallCommon
				switch in := in.(type) {
				case *ssa.Call:
					cc = &in.Call
				case *ssa.Defer:
					cc = &in.Call
				case *ssa.Go:
					cc = &in.Call
				}
				if cc == nil {
					continue
				}
				if cc.Method != nil {
					counts["invoke "+cc.Method.FullName()]++
					continue
				}
				if callee := cc.StaticCallee(); callee != nil {
					if callee.Pkg == nil || !strings.HasPrefix(callee.Pkg.Pkg.Path(), rp) {
						counts[callee.String()]++
					}
				}
			}
		}
	}
	var keys []string
	for k := range counts {
		keys = append(keys, k)
	}
	sort.Strings(keys)
	for _, k := range keys {
		fmt.Printf("%4d %s\n", counts[k], k)
	}
	return 0
}
