package main

import (
	"bytes"
	"encoding/json"
	"fmt"
	"os"
	"os/exec"
	"path/filepath"
	"regexp"
	"sort"
	"strconv"
	"strings"
	"time"

	"gosym/internal/eng"
)

type HarnessSpec struct {
	Pkg       string         `json:"pkg"`
	Name      string         `json:"name"`
	Solver    string         `json:"solver"`
	Quick     map[string]int `json:"quick"`
	Thorough  map[string]int `json:"thorough"`
	Budget    int64          `json:"budget"`
	MaxDec    int            `json:"maxdec"`
	TimeoutMs int            `json:"timeout_ms"`
	Hang      bool           `json:"hang"`       // unwound paths are hang candidates (replayed natively with a time limit)
	Permute   bool           `json:"permute_maps"`
	Tier      string         `json:"tier"`       // "" both, "thorough" only thorough
	Merge     []string       `json:"merge"`      // extra merged callees
	NoSlice   bool           `json:"no_slice"`
	WallS     int            `json:"wall_s"`     // wall-clock cap (quick)
	WallST    int            `json:"wall_s_thorough"`
	Race      bool           `json:"race"`
	What      string         `json:"what"`
	Overrides map[string]string `json:"overrides"` // repo function -> harness function (assume-guarantee summary)
}

type PropSpec struct {
	Title       string        `json:"title"`
	Harnesses   []HarnessSpec `json:"harnesses"`
	Bounds      string        `json:"bounds"`
	Outside     string        `json:"outside"`
	Stubs       []string      `json:"stubs"`
	Assumptions []string      `json:"assumptions"`
}

type KnownFinding struct {
	Status   string          `json:"status"` // known | fixed
	Property string          `json:"property"`
	Harness  string          `json:"harness"`
	Kind     string          `json:"kind"`
	ID       string          `json:"id"`
	Site     string          `json:"site"`
	What     string          `json:"what"`
	Commit   string          `json:"commit,omitempty"`
	Witness  json.RawMessage `json:"witness,omitempty"` // replay vector that must still fail natively
}

func loadSpecs() (map[string]PropSpec, error) {
	b, err := os.ReadFile(filepath.Join(verifDir, "harness", "specs.json"))
	if err != nil {
		return nil, err
	}
	m := map[string]PropSpec{}
	if err := json.Unmarshal(b, &m); err != nil {
		return nil, fmt.Errorf("specs.json: %v", err)
	}
	return m, nil
}

func loadKnown() ([]KnownFinding, error) {
	b, err := os.ReadFile(filepath.Join(verifDir, "known_findings.json"))
	if err != nil {
		if os.IsNotExist(err) {
			return nil, nil
		}
		return nil, err
	}
	var k []KnownFinding
	if err := json.Unmarshal(b, &k); err != nil {
		return nil, fmt.Errorf("known_findings.json: %v", err)
	}
	return k, nil
}

var outcomeRe = regexp.MustCompile(`(?m)^VERIF-OUTCOME(?:\[(\d+)\])?: (.*)$`)

// nativeReplay runs replay files natively (one go test invocation per package) and returns the
// outcome per file.
func nativeReplay(key string, files []string, timeoutMs int, race bool) (map[string]string, string, error) {
	res := map[string]string{}
	if len(files) == 0 {
		return res, "", nil
	}
	info := pkgTable[key]
	gen := genDir(key)
	if _, err := os.Stat(filepath.Join(gen, "overlay.json")); err != nil {
		if _, _, err := genOverlay(key); err != nil {
			return nil, "", err
		}
	}
	args := []string{"test", "-tags", "verif", "-vet=off", "-count=1", "-overlay", filepath.Join(gen, "overlay.json"), "-run", "^TestVerifReplay$", "-v",
		"-timeout", fmt.Sprintf("%ds", 120+len(files)*(timeoutMs/1000+1))}
	if race {
		args = append(args, "-race")
	}
	args = append(args, "./"+info.Rel)
	cmd := exec.Command("go", args...)
	cmd.Dir = repoDir
	cmd.Env = append(os.Environ(), "GOFLAGS=-mod=mod", "GOPROXY=off", "GOSUMDB=off", "GOTOOLCHAIN=local",
		"VERIF_REPLAY="+strings.Join(files, ","), "VERIF_REPLAY_TIMEOUT_MS="+strconv.Itoa(timeoutMs))
	var out bytes.Buffer
	cmd.Stdout = &out
	cmd.Stderr = &out
	err := cmd.Run()
	txt := out.String()
	prevEnd := 0
	for _, loc := range outcomeRe.FindAllStringSubmatchIndex(txt, -1) {
		i := 0
		if loc[2] >= 0 {
			i, _ = strconv.Atoi(txt[loc[2]:loc[3]])
		}
		o := strings.TrimSpace(txt[loc[4]:loc[5]])
		// the race detector's reports for a replay precede its outcome line
		if race && strings.Contains(txt[prevEnd:loc[0]], "WARNING: DATA RACE") {
			o = "race (reported by the race detector); outcome " + o
		}
		prevEnd = loc[1]
		if i < len(files) {
			res[files[i]] = o
		}
	}
	if len(res) == 0 && err != nil {
		return res, txt, fmt.Errorf("native replay failed: %v", err)
	}
	return res, txt, nil
}

// confirms reports whether a native outcome confirms the finding.
func confirms(f *eng.Finding, outcome string) bool {
	switch f.Kind {
	case "assert":
		return outcome == "assert:"+f.ID
	case "panic", "frame":
		return strings.HasPrefix(outcome, "panic:") || strings.HasPrefix(outcome, "assert:")
	case "unwound":
		return outcome == "hang"
	case "race":
		return strings.Contains(outcome, "race") || strings.HasPrefix(outcome, "assert:")
	case "unsupported":
		// a path the encoder could not follow, run natively instead: any native failure is real
		return strings.HasPrefix(outcome, "assert:") || strings.HasPrefix(outcome, "panic:") || outcome == "hang" || strings.HasPrefix(outcome, "race")
	}
	return false
}

type harnessResult struct {
	Spec     HarnessSpec
	Stats    eng.Stats
	Findings []*eng.Finding
	Samples  []eng.Sample
	Pass     []eng.Sample
	TimedOut bool
	Wall     float64
	Hits     int64
	Params   map[string]int
}

func cmdCheck(args []string) int {
	if len(args) < 2 {
		fmt.Fprintln(os.Stderr, "usage: gosym check <Cxx> <quick|thorough> [--replay path]")
		return 2
	}
	prop, tier := args[0], args[1]
	if len(args) >= 4 && args[2] == "--replay" {
		return replayOne(prop, args[3])
	}
	if tier == "--replay" && len(args) >= 3 {
		return replayOne(prop, args[2])
	}
	t0 := time.Now()
	specs, err := loadSpecs()
	if err != nil {
		fmt.Fprintln(os.Stderr, err)
		return 2
	}
	spec, ok := specs[prop]
	if !ok {
		fmt.Fprintf(os.Stderr, "no spec for %s\n", prop)
		return 2
	}
	known, err := loadKnown()
	if err != nil {
		fmt.Fprintln(os.Stderr, err)
		return 2
	}
	seed := 0
	if s := os.Getenv("VERIF_SEED"); s != "" {
		seed, _ = strconv.Atoi(s)
	}
	workers := 16
	if s := os.Getenv("VERIF_WORKERS"); s != "" {
		workers, _ = strconv.Atoi(s)
	}
	progs := map[string]*eng.Program{}
	funcs := map[string]bool{}
	var results []*harnessResult
	broken := []string{}
	for _, hs := range spec.Harnesses {
		if hs.Tier == "thorough" && tier != "thorough" {
			continue
		}
		p := progs[hs.Pkg]
		if p == nil {
			var err error
			p, _, err = loadProgram(hs.Pkg)
			if err != nil {
				fmt.Fprintf(os.Stderr, "load %s: %v\n", hs.Pkg, err)
				return 2
			}
			progs[hs.Pkg] = p
		}
		for _, m := range hs.Merge {
			p.MergeFns[m] = true
		}
		p.Overrides = map[string]string{}
		for k, v := range hs.Overrides {
			p.Overrides[k] = v
		}
		p.ResetCaches()
		params := hs.Quick
		wall := hs.WallS
		if tier == "thorough" {
			params = map[string]int{}
			for k, v := range hs.Quick {
				params[k] = v
			}
			for k, v := range hs.Thorough {
				params[k] = v
			}
			wall = hs.WallST
		}
		if params == nil {
			params = map[string]int{}
		}
		cfg := eng.Config{Harness: hs.Name, Solver: hs.Solver, Workers: workers, Budget: hs.Budget, MaxDec: hs.MaxDec, TimeoutMs: hs.TimeoutMs,
			Params: params, PermuteMaps: hs.Permute, SampleEvery: 37 + int64(seed%11), NoSlice: hs.NoSlice}
		if cfg.Solver == "" {
			cfg.Solver = "z3"
		}
		if cfg.Budget == 0 {
			cfg.Budget = 3_000_000
		}
		if cfg.MaxDec == 0 {
			cfg.MaxDec = 4000
		}
		if cfg.TimeoutMs == 0 {
			cfg.TimeoutMs = 20000
			if tier == "thorough" {
				cfg.TimeoutMs = 120000
			}
		}
		if wall > 0 {
			cfg.Deadline = time.Now().Add(time.Duration(wall) * time.Second)
		}
		ex, err := eng.NewExplorer(p, cfg)
		if err != nil {
			fmt.Fprintln(os.Stderr, err)
			return 2
		}
		th := time.Now()
		if err := ex.Run(); err != nil {
			fmt.Fprintf(os.Stderr, "%s: %v\n", hs.Name, err)
			return 2
		}
		hr := &harnessResult{Spec: hs, Stats: ex.Stats, Findings: ex.SortedFindings(), Samples: ex.Samples, Pass: ex.PassModels, TimedOut: ex.TimedOut,
			Wall: time.Since(th).Seconds(), Hits: ex.CacheHits(), Params: params}
		results = append(results, hr)
		fmt.Fprintf(os.Stderr, "[%s] %s %v: %.1fs paths=%d completed=%d infeasible=%d panics=%d unwound=%d unsupported=%d asserts=%d (unsat %d, triv %d, sat %d, unk %d) queries=%d findings=%d timedout=%v\n",
			prop, hs.Name, params, hr.Wall, ex.Stats.Paths, ex.Stats.Completed, ex.Stats.Infeasible, ex.Stats.Panics, ex.Stats.Unwound, ex.Stats.Unsupported,
			ex.Stats.Asserts, ex.Stats.AssertUnsat, ex.Stats.AssertTriv, ex.Stats.AssertSat, ex.Stats.AssertUnk, ex.Stats.Queries, len(hr.Findings), ex.TimedOut)
		for k, v := range ex.Stats.Unsupp {
			fmt.Fprintf(os.Stderr, "    unsupported x%d: %s\n", v, k)
		}
		for k, v := range ex.Stats.UnwoundMsgs {
			fmt.Fprintf(os.Stderr, "    unwound x%d: %s\n", v, k)
		}
		if ex.Stats.Completed == 0 {
			broken = append(broken, hs.Name+": no path completed (vacuous harness)")
		}
		if ex.Stats.SolverErrors > 0 {
			broken = append(broken, fmt.Sprintf("%s: %d solver errors", hs.Name, ex.Stats.SolverErrors))
		}
	}
	for _, p := range progs {
		for f := range p.FuncsEncoded {
			funcs[f] = true
		}
	}

	// ---- native replay of findings, known witnesses and passing samples ----
	repDir := filepath.Join(verifDir, "out", "replays", prop)
	os.RemoveAll(repDir)
	os.MkdirAll(repDir, 0o755)
	type pending struct {
		f     *eng.Finding
		hr    *harnessResult
		file  string
		known *KnownFinding
		pass  bool
		kw    *KnownFinding // known-witness replay
	}
	byPkg := map[string][]*pending{}
	n := 0
	for _, hr := range results {
		for _, f := range hr.Findings {
			if f.Kind == "engine" {
				broken = append(broken, fmt.Sprintf("%s: engine error: %s", hr.Spec.Name, f.Msg))
				continue
			}
			if f.Kind == "unwound" && !hr.Spec.Hang {
				continue // reported as incomplete coverage below
			}
			n++
			file := filepath.Join(repDir, fmt.Sprintf("%s-%d.json", hr.Spec.Name, n))
			b, _ := json.MarshalIndent(f, "", " ")
			os.WriteFile(file, b, 0o644)
			byPkg[hr.Spec.Pkg] = append(byPkg[hr.Spec.Pkg], &pending{f: f, hr: hr, file: file})
		}
		// passing samples for validation of the encoding
		for i, s := range hr.Pass {
			if i >= 6 {
				break
			}
			n++
			file := filepath.Join(repDir, fmt.Sprintf("%s-pass-%d.json", hr.Spec.Name, n))
			f := &eng.Finding{Harness: hr.Spec.Name, Kind: "pass", Inputs: s.Inputs, Params: hr.Params}
			b, _ := json.MarshalIndent(f, "", " ")
			os.WriteFile(file, b, 0o644)
			byPkg[hr.Spec.Pkg] = append(byPkg[hr.Spec.Pkg], &pending{f: f, hr: hr, file: file, pass: true})
		}
	}
	// known witnesses for this property
	for i := range known {
		k := &known[i]
		if k.Property != prop || k.Status != "known" || len(k.Witness) == 0 {
			continue
		}
		var pkg string
		for _, hs := range spec.Harnesses {
			if hs.Name == k.Harness {
				pkg = hs.Pkg
			}
		}
		if pkg == "" {
			continue
		}
		n++
		file := filepath.Join(repDir, fmt.Sprintf("known-%d.json", n))
		os.WriteFile(file, k.Witness, 0o644)
		byPkg[pkg] = append(byPkg[pkg], &pending{file: file, kw: k})
	}
	validated, spurious, passMismatch := 0, 0, 0
	knownStillFails := map[*KnownFinding]bool{}
	var violations []*pending
	var knownHits []*pending
	var hangUnconfirmed int
	nativeOnly := 0 // paths the encoder could not follow that were run natively and passed
	for pkg, ps := range byPkg {
		var files []string
		race := false
		for _, p := range ps {
			files = append(files, p.file)
			if p.hr != nil && p.hr.Spec.Race {
				race = true
			}
		}
		outs, txt, err := nativeReplay(pkg, files, 10000, race)
		if err != nil {
			fmt.Fprintf(os.Stderr, "native replay (%s) failed: %v\n%s\n", pkg, err, tail(txt, 40))
			broken = append(broken, "native replay failed for package "+pkg)
			continue
		}
		for _, p := range ps {
			o := outs[p.file]
			switch {
			case p.kw != nil:
				if o != "pass" && o != "skip" && o != "" {
					knownStillFails[p.kw] = true
				}
			case p.pass:
				if o == "pass" {
					validated++
				} else if strings.HasPrefix(o, "race") {
					// the race detector never reports a race that did not happen
					p.f.Kind, p.f.ID = "race", "race-detector"
					p.f.Msg = "the Go race detector reported a data race while this path was replayed natively as goroutines"
					violations = append(violations, p)
				} else {
					passMismatch++
					fmt.Fprintf(os.Stderr, "ENCODING MISMATCH: %s predicted pass, native outcome %q (%s)\n", p.f.Harness, o, p.file)
				}
			default:
				if confirms(p.f, o) {
					validated++
					// known?
					var kf *KnownFinding
					for i := range known {
						k := &known[i]
						if k.Status == "known" && k.Property == prop && k.Harness == p.f.Harness && k.Kind == p.f.Kind && k.ID == p.f.ID && k.Site == p.f.Site {
							kf = k
						}
					}
					if kf != nil {
						p.known = kf
						knownHits = append(knownHits, p)
					} else {
						violations = append(violations, p)
					}
				} else if p.f.Kind == "unsupported" {
					nativeOnly++
				} else if p.f.Kind == "unwound" {
					hangUnconfirmed++
					fmt.Fprintf(os.Stderr, "unwound path not confirmed as a hang natively (outcome %q): bound too small? %s\n", o, p.f.Msg)
				} else {
					spurious++
					fmt.Fprintf(os.Stderr, "SPURIOUS: %s %s/%s at %s: native outcome %q (%s)\n", p.f.Harness, p.f.Kind, p.f.ID, p.f.Site, o, p.file)
				}
			}
		}
	}
	if passMismatch > 0 {
		broken = append(broken, fmt.Sprintf("%d passing path models did not pass natively (encoding mismatch)", passMismatch))
	}

	// ---- evidence ----
	var states, transitions, asserts, unsat, sat, unk, triv, unsupp, unwound, infeasible, steps, hits int64
	var solverTime float64
	var samples []interface{}
	var hdetail []map[string]interface{}
	anyTimedOut := false
	for _, hr := range results {
		st := hr.Stats
		states += st.Completed
		transitions += st.Queries
		asserts += st.Asserts
		unsat += st.AssertUnsat
		sat += st.AssertSat
		unk += st.AssertUnk
		triv += st.AssertTriv
		unsupp += st.Unsupported
		unwound += st.Unwound
		infeasible += st.Infeasible
		steps += st.Steps
		hits += hr.Hits
		solverTime += st.SolverTime.Seconds()
		anyTimedOut = anyTimedOut || hr.TimedOut
		for i, s := range hr.Samples {
			if i < 2 {
				samples = append(samples, s)
			}
		}
		hdetail = append(hdetail, map[string]interface{}{
			"harness": hr.Spec.Name, "package": hr.Spec.Pkg, "what": hr.Spec.What, "params": hr.Params, "solver": orDefault(hr.Spec.Solver, "z3"),
			"paths": st.Paths, "completed": st.Completed, "infeasible": st.Infeasible, "panic_paths": st.Panics, "unwound_paths": st.Unwound,
			"unsupported_paths": st.Unsupported, "assertion_obligations": st.Asserts, "assert_unsat": st.AssertUnsat, "assert_trivial": st.AssertTriv,
			"assert_sat": st.AssertSat, "assert_inconclusive": st.AssertUnk, "solver_queries": st.Queries, "cache_hits": hr.Hits,
			"solver_time_s": round1(st.SolverTime.Seconds()), "wall_s": round1(hr.Wall), "instructions": st.Steps, "max_decisions": st.MaxDecisions,
			"reach": st.Reach, "unsupported": st.Unsupp, "unwound": st.UnwoundMsgs, "exhausted": !hr.TimedOut,
		})
	}
	for _, p := range violations {
		samples = append(samples, map[string]interface{}{"violation": p.f})
	}
	if len(samples) == 0 {
		samples = append(samples, map[string]interface{}{"note": "no completed path"})
	}
	var fl []string
	for f := range funcs {
		if strings.Contains(f, "jsonata-go") && !strings.Contains(f, "verif") && !strings.Contains(f, "VerifH_") {
			fl = append(fl, f)
		}
	}
	sort.Strings(fl)
	var knownLines []string
	for _, p := range knownHits {
		knownLines = append(knownLines, fmt.Sprintf("KNOWN-FINDING: property=%s %s", prop, p.known.What))
	}
	knownLines = uniq(knownLines)
	cov := map[string]interface{}{
		"states": states, "transitions": transitions, "traces_validated_against_impl": validated, "samples": samples,
		"exhaustive":            !anyTimedOut && unwound == 0 && unsupp == 0,
		"functions_encoded":     fl,
		"n_functions_encoded":   len(fl),
		"bounds":                spec.Bounds,
		"outside_bounds":        spec.Outside,
		"stubs":                 spec.Stubs,
		"harnesses":             hdetail,
		"assertion_obligations": asserts, "discharged_unsat": unsat, "discharged_by_folding": triv, "sat": sat, "inconclusive": unk,
		"infeasible_paths": infeasible, "unsupported_paths": unsupp, "unwound_paths": unwound, "spurious_counterexamples": spurious,
		"hang_candidates_unconfirmed": hangUnconfirmed, "unsupported_paths_run_natively_and_passed": nativeOnly,
		"solver_time_s":               round1(solverTime), "instructions_interpreted": steps, "query_cache_hits": hits,
		"known_findings_hit": knownLines,
		"explanation":        "states = symbolic paths completed; transitions = SMT queries discharged (feasibility + assertion); every assertion obligation was decided by the solver (unsat) or by constant folding on that path",
	}
	ev := map[string]interface{}{
		"property_id": prop, "tier": tier, "seed": seed, "level": "model_checking", "coverage": cov,
		"assumptions": spec.Assumptions, "wall_s": round1(time.Since(t0).Seconds()), "violations": len(violations),
	}
	os.MkdirAll(filepath.Join(verifDir, "evidence"), 0o755)
	eb, _ := json.MarshalIndent(ev, "", " ")
	if err := os.WriteFile(filepath.Join(verifDir, "evidence", prop+".json"), eb, 0o644); err != nil {
		fmt.Fprintln(os.Stderr, err)
		return 2
	}
	if tier == "thorough" {
		// kept as well under evidence/thorough/: evidence/<id>.json is rewritten by the next quick run
		os.MkdirAll(filepath.Join(verifDir, "evidence", "thorough"), 0o755)
		os.WriteFile(filepath.Join(verifDir, "evidence", "thorough", prop+".json"), eb, 0o644)
	}

	// ---- verdict ----
	for _, l := range knownLines {
		fmt.Println(l)
	}
	for i := range known {
		k := &known[i]
		if k.Property == prop && k.Status == "known" && len(k.Witness) > 0 && !knownStillFails[k] {
			fmt.Fprintf(os.Stderr, "note: known finding %q no longer fails natively on its witness\n", k.What)
		}
	}
	if len(violations) > 0 {
		// keep replay files of violations in a stable place
		for _, p := range violations {
			fmt.Printf("VIOLATION property=%s replay=%s\n", prop, p.file)
			fmt.Fprintf(os.Stderr, "  %s %s/%s at %s: %s\n", p.f.Harness, p.f.Kind, p.f.ID, p.f.Site, p.f.Msg)
		}
		return 1
	}
	if len(broken) > 0 {
		for _, b := range broken {
			fmt.Fprintf(os.Stderr, "BROKEN: %s\n", b)
		}
		return 2
	}
	fmt.Printf("OK property=%s tier=%s paths=%d queries=%d obligations=%d (unsat %d, folded %d, inconclusive %d) unsupported=%d unwound=%d validated=%d wall=%.0fs\n",
		prop, tier, states, transitions, asserts, unsat, triv, unk, unsupp, unwound, validated, time.Since(t0).Seconds())
	return 0
}

func orDefault(s, d string) string {
	if s == "" {
		return d
	}
	return s
}

func round1(f float64) float64 { return float64(int(f*10+0.5)) / 10 }

func uniq(in []string) []string {
	seen := map[string]bool{}
	var out []string
	for _, s := range in {
		if !seen[s] {
			seen[s] = true
			out = append(out, s)
		}
	}
	return out
}

func tail(s string, n int) string {
	lines := strings.Split(s, "\n")
	if len(lines) > n {
		lines = lines[len(lines)-n:]
	}
	return strings.Join(lines, "\n")
}

// replayOne replays a stored counterexample natively and reports the outcome.
func replayOne(prop, path string) int {
	b, err := os.ReadFile(path)
	if err != nil {
		fmt.Fprintln(os.Stderr, err)
		return 2
	}
	var f eng.Finding
	if err := json.Unmarshal(b, &f); err != nil {
		fmt.Fprintln(os.Stderr, err)
		return 2
	}
	specs, err := loadSpecs()
	if err != nil {
		fmt.Fprintln(os.Stderr, err)
		return 2
	}
	pkg := ""
	for _, sp := range specs {
		for _, hs := range sp.Harnesses {
			if hs.Name == f.Harness {
				pkg = hs.Pkg
			}
		}
	}
	if pkg == "" {
		fmt.Fprintf(os.Stderr, "harness %s not in specs\n", f.Harness)
		return 2
	}
	if _, _, err := genOverlay(pkg); err != nil {
		fmt.Fprintln(os.Stderr, err)
		return 2
	}
	outs, txt, err := nativeReplay(pkg, []string{path}, 10000, false)
	if err != nil {
		fmt.Fprintln(os.Stderr, err, tail(txt, 30))
		return 2
	}
	o := outs[path]
	fmt.Printf("native outcome: %s\n", o)
	if f.Kind == "pass" {
		if o == "pass" {
			return 0
		}
		return 1
	}
	if confirms(&f, o) {
		fmt.Printf("VIOLATION property=%s replay=%s\n", prop, path)
		return 1
	}
	return 0
}

func cmdReplay(args []string) int {
	if len(args) < 2 {
		fmt.Fprintln(os.Stderr, "usage: gosym replay <Cxx> <path>")
		return 2
	}
	return replayOne(args[0], args[1])
}
