//go:build verif

package jxpath

import (
	"time"
)

// ---------------------------------------------------------------------------------------------
// C19 — $fromMillis renders the right calendar fields (package jxpath).
// ---------------------------------------------------------------------------------------------

const (
	c19MinMS = -30610224000000 // 1000-01-01T00:00:00Z
	c19MaxMS = 253402300799999 // 9999-12-31T23:59:59.999Z
)

// hItoaPad renders n (|n| < 100000) in decimal with at least width digits.
func hItoaPad(n, width int) string {
	neg := n < 0
	if neg {
		n = -n
	}
	digits := 1
	if n >= 10 {
		digits = 2
	}
	if n >= 100 {
		digits = 3
	}
	if n >= 1000 {
		digits = 4
	}
	if n >= 10000 {
		digits = 5
	}
	if width > digits {
		digits = width
	}
	buf := make([]byte, digits)
	for i := digits - 1; i >= 0; i-- {
		buf[i] = byte('0' + n%10)
		n /= 10
	}
	if neg {
		return "-" + string(buf)
	}
	return string(buf)
}

// VerifSummary_formatInteger stands in for formatInteger(n, layout) when the layout consists of
// decimal digits only (the layouts the date code uses): the decimal numeral of n padded with zeros
// to the number of digits in the layout. VerifH_C19_FormatIntegerSummary proves it equal to the real
// function on the range used. Other layouts go to the real implementation.
func VerifSummary_formatInteger(n int, layout string) (string, error) {
	if isAllDigits(layout) {
		return hItoaPad(n, len(layout)), nil
	}
	return FormatNumber(float64(n), layout, defaultDecimalFormat)
}

// VerifH_C19_FormatIntegerSummary: the summary equals the real formatInteger.
func VerifH_C19_FormatIntegerSummary() {
	lo, hi := verifParam("LO", -100), verifParam("HI", 400)
	n := lo + verifChoose(hi-lo+1)
	layouts := []string{"1", "01", "001", "0001", "0101"}
	l := layouts[verifChoose(len(layouts))]
	got, err := formatInteger(n, l)
	want, _ := VerifSummary_formatInteger(n, l)
	verifAssert(err == nil && got == want, "formatInteger-summary")
}

// ---- independent civil calendar (days since 1970-01-01 -> y/m/d), after H. Hinnant ----

func c19FloorDiv(a, b int64) int64 {
	q := a / b
	if a%b != 0 && (a < 0) != (b < 0) {
		q--
	}
	return q
}

type c19Fields struct {
	year, month, day   int
	hour, minute, sec  int
	ms                 int
	weekday            int // 0 = Sunday
	yday               int // 1..366
	isoWeek            int
	offset             int // seconds east of UTC
}

func c19Leap(y int) bool { return y%4 == 0 && (y%100 != 0 || y%400 == 0) }

// c19Civil computes the fields of the instant (days since 1970-01-01, second of day, millisecond)
// as seen at the given offset. It is written on the structured input so that it shares no
// arithmetic with the implementation (which recombines everything into seconds and divides again).
func c19Civil(days, sod, msp int64, offset int) c19Fields {
	var f c19Fields
	f.offset = offset
	f.ms = int(msp)
	ls := sod + int64(offset)
	if ls < 0 {
		ls += 86400
		days--
	} else if ls >= 86400 {
		ls -= 86400
		days++
	}
	f.hour = int(ls / 3600)
	f.minute = int(ls % 3600 / 60)
	f.sec = int(ls % 60)
	z := days + 719468 // > 0 for years >= 1000
	era := z / 146097
	doe := z - era*146097
	yoe := (doe - doe/1460 + doe/36524 - doe/146096) / 365
	y := yoe + era*400
	doy := doe - (365*yoe + yoe/4 - yoe/100)
	mp := (5*doy + 2) / 153
	d := doy - (153*mp+2)/5 + 1
	m := mp + 3
	if mp >= 10 {
		m = mp - 9
	}
	if m <= 2 {
		y++
	}
	f.year, f.month, f.day = int(y), int(m), int(d)
	f.weekday = int((days + 4 + 7000000) % 7)
	// day of year
	cum := []int{0, 31, 59, 90, 120, 151, 181, 212, 243, 273, 304, 334}
	f.yday = cum[f.month-1] + f.day
	if f.month > 2 && c19Leap(f.year) {
		f.yday++
	}
	// ISO week
	dow := f.weekday
	if dow == 0 {
		dow = 7
	}
	w := (f.yday - dow + 10) / 7
	if w < 1 {
		w = c19WeeksIn(f.year - 1)
	} else if w > c19WeeksIn(f.year) {
		w = 1
	}
	f.isoWeek = w
	return f
}

func c19P(y int) int { return (y + y/4 - y/100 + y/400) % 7 }

func c19WeeksIn(y int) int {
	if c19P(y) == 4 || c19P(y-1) == 3 {
		return 53
	}
	return 52
}

var c19Months = []string{"", "january", "february", "march", "april", "may", "june", "july", "august", "september", "october", "november", "december"}
var c19Days = []string{"sunday", "monday", "tuesday", "wednesday", "thursday", "friday", "saturday"}

func c19Ordinal(n int) string {
	switch {
	case n%10 == 1 && n%100 != 11:
		return "st"
	case n%10 == 2 && n%100 != 12:
		return "nd"
	case n%10 == 3 && n%100 != 13:
		return "rd"
	}
	return "th"
}

func c19Zone(off int, sep string) string {
	sign := "+"
	if off < 0 {
		sign = "-"
		off = -off
	}
	return sign + hItoaPad(off/3600, 2) + sep + hItoaPad(off%3600/60, 2)
}

// c19ZoneShort: the short zone forms show the hours (padded to width) and the minutes only when they
// are not zero.
func c19ZoneShort(off int, width int) string {
	sign := "+"
	if off < 0 {
		sign = "-"
		off = -off
	}
	s := sign + hItoaPad(off/3600, width)
	if m := off % 3600 / 60; m != 0 {
		s += ":" + hItoaPad(m, 2)
	}
	return s
}

type c19Case struct {
	picture string
	want    func(f c19Fields) string
}

var c19DateCases = []c19Case{
	{"[Y]", func(f c19Fields) string { return hItoaPad(f.year, 1) }},
	{"[Y0001]", func(f c19Fields) string { return hItoaPad(f.year, 4) }},
	{"[Y01]", func(f c19Fields) string { return hItoaPad(f.year%100, 2) }},
	{"[M]", func(f c19Fields) string { return hItoaPad(f.month, 1) }},
	{"[M01]", func(f c19Fields) string { return hItoaPad(f.month, 2) }},
	{"[Mn]", func(f c19Fields) string { return c19Months[f.month] }},
	{"[D]", func(f c19Fields) string { return hItoaPad(f.day, 1) }},
	{"[D01]", func(f c19Fields) string { return hItoaPad(f.day, 2) }},
	{"[D1o]", func(f c19Fields) string { return hItoaPad(f.day, 1) + c19Ordinal(f.day) }},
	{"[d]", func(f c19Fields) string { return hItoaPad(f.yday, 1) }},
	{"[d001]", func(f c19Fields) string { return hItoaPad(f.yday, 3) }},
	{"[F]", func(f c19Fields) string { return c19Days[f.weekday] }},
	{"[F1]", func(f c19Fields) string { return hItoaPad(f.weekday+1, 1) }},
	{"[W]", func(f c19Fields) string { return hItoaPad(f.isoWeek, 1) }},
	{"[W01]", func(f c19Fields) string { return hItoaPad(f.isoWeek, 2) }},
}

var c19TimeCases = []c19Case{
	{"[H]", func(f c19Fields) string { return hItoaPad(f.hour, 1) }},
	{"[H01]", func(f c19Fields) string { return hItoaPad(f.hour, 2) }},
	{"[h]", func(f c19Fields) string { return hItoaPad((f.hour+11)%12+1, 1) }},
	{"[h01]", func(f c19Fields) string { return hItoaPad((f.hour+11)%12+1, 2) }},
	{"[P]", func(f c19Fields) string {
		if f.hour >= 12 {
			return "pm"
		}
		return "am"
	}},
	{"[m]", func(f c19Fields) string { return hItoaPad(f.minute, 2) }},
	{"[m1]", func(f c19Fields) string { return hItoaPad(f.minute, 1) }},
	{"[s]", func(f c19Fields) string { return hItoaPad(f.sec, 2) }},
	{"[f001]", func(f c19Fields) string { return hItoaPad(f.ms, 3) }},
	{"[Z]", func(f c19Fields) string { return c19Zone(f.offset, ":") }},
	{"[Z01:01]", func(f c19Fields) string { return c19Zone(f.offset, ":") }},
	{"[Z0101]", func(f c19Fields) string { return c19Zone(f.offset, "") }},
	{"[z]", func(f c19Fields) string { return "GMT" + c19Zone(f.offset, ":") }},
	{"[Z0]", func(f c19Fields) string { return c19ZoneShort(f.offset, 1) }},
	{"[Z00]", func(f c19Fields) string { return c19ZoneShort(f.offset, 2) }},
	{"[z0]", func(f c19Fields) string { return "GMT" + c19ZoneShort(f.offset, 1) }},
}

var c19Offsets = []int{0, 19800, -1800, -900, 50400, -50400, -25200, 2700, 3600, -12600}
var c19SampleDays = []int64{0, -354285, 17617}
var c19SampleYears = []int{1000, 1001, 1100, 1200, 1582, 1600, 1699, 1700, 1899, 1900, 1969, 1970, 1972, 1999, 2000, 2001, 2004, 2018, 2020, 2038, 2100, 2262, 2263, 2400, 4000, 9996, 9998, 9999}

// c19Jan1: days since 1970-01-01 of y-01-01 (concrete helper).
func c19Jan1(y int) int64 {
	yy := int64(y - 1)
	era := yy / 400
	yoe := yy - era*400
	doe := yoe*365 + yoe/4 - yoe/100 + 306
	return era*146097 + doe - 719468
}

// day shift combinations: (second of day, offset) giving local day = UTC day -1, 0, +1
var c19Shift = [][2]int64{{43200, 0}, {0, -1800}, {86399, 19800}, {900, -900}, {86000, 50400}}

func c19CheckAll(cases []c19Case, days, sod, msp int64, off int, id string) {
	loc := time.FixedZone("X", off)
	t := time.Unix(days*86400+sod, msp*1000000).In(loc)
	f := c19Civil(days, sod, msp, off)
	picture, want := "", ""
	for _, c := range cases {
		picture += c.picture + "|"
		want += c.want(f) + "|"
	}
	got, err := FormatTime(t, picture)
	verifAssert(err == nil, "components-render")
	if err != nil {
		return
	}
	verifAssert(got == want, id)
}

// VerifH_C19_DateFields: every day of a year (the year from a sample in the quick tier, every year
// 1000..9999 in the thorough tier), at times/offsets that shift the local date by -1, 0, +1: all date
// components ([Y] [M] [D] [d] [F] [W] with their modifiers) render the field of an independent civil
// calendar. The day is enumerated by forking: chains of divisions by 146097, 36524, 1461, 365, 153
// over a symbolic day did not come back from cvc5 (as-int), z3 or z3-new within 20 s per query even
// for a 366-value range.
func VerifH_C19_DateFields() {
	var year int
	if verifParam("ALLYEARS", 0) == 1 {
		year = 1000 + verifChoose(9000)
	} else {
		year = c19SampleYears[verifChoose(len(c19SampleYears))]
	}
	n := 365
	if c19Leap(year) {
		n = 366
	}
	doy := int64(verifChoose(n))
	days := c19Jan1(year) + doy
	sh := c19Shift[verifChoose(verifParam("SHIFTS", 5))]
	if days <= -354285 || days >= 2932896 {
		return // the shifted local date must stay within 1000..9999
	}
	c19CheckAll(c19DateCases, days, sh[0], 0, int(sh[1]), "date-components")
}

// VerifH_C19_TimeFields: every minute of the day and every second of an hour (thorough: every second
// of the day), on sampled days and offsets (thorough: the whole 15-minute grid -14:00..+14:00): all
// time and zone components ([H] [h] [P] [m] [s] [f] [Z] [z]) render the right field.
func VerifH_C19_TimeFields() {
	days := c19SampleDays[verifChoose(verifParam("DAYS", 3))]
	var sod int64
	if verifParam("ALLSECONDS", 0) == 1 {
		sod = int64(verifChoose(24))*3600 + int64(verifChoose(3600)) // (one choice is limited to 32767 alternatives)
	} else if verifChoose(2) == 0 {
		sod = int64(verifChoose(1440)) * 60
	} else {
		sod = 82800 + int64(verifChoose(3600))
	}
	msps := []int64{0, 1, 999, 123}
	msp := msps[verifChoose(verifParam("MSPS", 4))]
	var off int
	if verifParam("GRID", 0) == 1 {
		off = (verifChoose(113) - 56) * 900
	} else {
		off = c19Offsets[verifChoose(verifParam("OFFS", 10))]
	}
	c19CheckAll(c19TimeCases, days, sod, msp, off, "time-components")
}

// VerifH_C19_Picture: the bracket scanner on arbitrary pictures never panics and either renders or
// reports an error.
func VerifH_C19_Picture() {
	p := verifString(verifParam("N", 4))
	t := time.Unix(1522161458, 123000000).UTC()
	s, err := FormatTime(t, p)
	if err == nil {
		_ = s
	}
}

// VerifH_C19_Widths: width modifiers of any size (symbolic maximum width 0..80 on the year component,
// which truncates the year to that many digits; a menu of widths through the picture parser for every
// numeric component): formatting returns, and a maximum width of at least the year's digit count
// leaves the year intact.
func VerifH_C19_Widths() {
	t := time.Date(2024, 3, 9, 4, 5, 6, 7000000, time.UTC)
	if verifChoose(2) == 0 {
		w := verifInt()
		verifAssume(w >= 0 && w <= 80)
		s, err := formatYear(t, &variableMarker{format: "1", maxWidth: w})
		verifAssert(err == nil, "year-renders-for-every-width")
		if err == nil && w >= 4 {
			verifAssert(s == "2024", "wide-maximum-keeps-the-year")
		}
		if err == nil && w == 2 {
			verifAssert(s == "24", "two-digit-year")
		}
		return
	}
	comps := []string{"Y", "M", "D", "d", "H", "h", "m", "s", "f", "F", "W", "w", "Z", "z", "P", "E", "C"}
	widths := []string{"1", "2", "3", "9", "10", "18", "19", "20", "63", "64", "65", "100", "*"}
	c := comps[verifChoose(len(comps))]
	lo := widths[verifChoose(len(widths))]
	hi := widths[verifChoose(len(widths))]
	p := "[" + c + "1," + lo + "-" + hi + "]"
	verifNote(p)
	_, _ = FormatTime(t, p) // must return
}
