//go:build verif

package jxpath

import "math"

// ---------------------------------------------------------------------------------------------
// C18 — $formatNumber: picture grammar, termination, rendering structure (package jxpath).
// ---------------------------------------------------------------------------------------------

// c18RefValid is a recogniser of the XPath 3.1 decimal-format picture grammar (section 4.7.3) for the
// default format, written from the specification. Every 'e' in the pictures it is given is a genuine
// exponent separator (preceded and followed by a decimal digit); the harness assumes that.
func c18RefSub(p string) bool {
	if p == "" {
		return false
	}
	isDigit := func(c byte) bool { return c == '0' || c == '#' }
	isActive := func(c byte) bool { return isDigit(c) || c == '.' || c == ',' || c == 'e' }
	first, last := -1, -1
	dots, percents, es := 0, 0, 0
	for i := 0; i < len(p); i++ {
		c := p[i]
		if isActive(c) {
			if first < 0 {
				first = i
			}
			last = i
		}
		switch c {
		case '.':
			dots++
		case '%':
			percents++
		case 'e':
			es++
		}
	}
	if dots > 1 || percents > 1 || es > 1 {
		return false
	}
	if es > 0 && percents > 0 {
		return false
	}
	if first < 0 {
		return false // no digit at all
	}
	active := p[first : last+1]
	for i := 0; i < len(active); i++ {
		if !isActive(active[i]) {
			return false // passive character between active characters
		}
	}
	mantissa, exponent := active, ""
	for i := 0; i < len(active); i++ {
		if active[i] == 'e' {
			mantissa, exponent = active[:i], active[i+1:]
		}
	}
	if es > 0 {
		if exponent == "" {
			return false
		}
		for i := 0; i < len(exponent); i++ {
			if exponent[i] != '0' {
				return false
			}
		}
	}
	integer, fraction := mantissa, ""
	hasDot := false
	for i := 0; i < len(mantissa); i++ {
		if mantissa[i] == '.' {
			integer, fraction, hasDot = mantissa[:i], mantissa[i+1:], true
		}
	}
	nd := 0
	for i := 0; i < len(mantissa); i++ {
		if isDigit(mantissa[i]) {
			nd++
		}
	}
	if nd == 0 {
		return false
	}
	// grouping separators
	for i := 0; i+1 < len(mantissa); i++ {
		if mantissa[i] == ',' && mantissa[i+1] == ',' {
			return false
		}
	}
	if len(integer) > 0 && integer[len(integer)-1] == ',' {
		return false // adjacent to the decimal separator, or at the end of the integer part
	}
	if hasDot && len(fraction) > 0 && fraction[0] == ',' {
		return false
	}
	// digit order
	seenDecimal := false
	for i := 0; i < len(integer); i++ {
		if integer[i] == '0' {
			seenDecimal = true
		}
		if integer[i] == '#' && seenDecimal {
			return false
		}
	}
	seenOptional := false
	for i := 0; i < len(fraction); i++ {
		if fraction[i] == '#' {
			seenOptional = true
		}
		if fraction[i] == '0' && seenOptional {
			return false
		}
	}
	return true
}

func c18RefValid(p string) bool {
	semi := -1
	for i := 0; i < len(p); i++ {
		if p[i] == ';' {
			if semi >= 0 {
				return false
			}
			semi = i
		}
	}
	if semi < 0 {
		return c18RefSub(p)
	}
	return c18RefSub(p[:semi]) && c18RefSub(p[semi+1:])
}

// VerifH_C18_PictureGrammar: every picture of <= N characters over the class alphabet is accepted
// exactly when the XPath grammar accepts it.
func VerifH_C18_PictureGrammar() {
	n := verifParam("N", 4)
	p := verifString(n)
	semis := 0
	for i := 0; i < len(p); i++ {
		c := p[i]
		verifAssume(c == '0' || c == '#' || c == '.' || c == ',' || c == ';' || c == '%' || c == 'x' || c == 'e')
		if c == ';' {
			semis++
		}
		if c == 'e' {
			// only genuine exponent separators (between decimal digits)
			verifAssume(i > 0 && i+1 < len(p) && p[i-1] == '0' && p[i+1] == '0')
		}
	}
	verifAssume(len(p) > 0 && semis <= 1)
	if semis == 1 {
		verifAssume(p[len(p)-1] != ';') // an empty second sub-picture is treated as absent by the port
	}
	_, err := FormatNumber(1234.5, p, NewDecimalFormat())
	verifAssert((err == nil) == c18RefValid(p), "picture-accepted-iff-grammatical")
}

// VerifH_C18_Total: $formatNumber terminates without panicking for every picture of <= N characters
// and values at the edges (0, negatives, tiny, huge).
func VerifH_C18_Total() {
	n := verifParam("N", 4)
	p := verifString(n)
	for i := 0; i < len(p); i++ {
		c := p[i]
		verifAssume(c == '0' || c == '#' || c == '.' || c == ',' || c == ';' || c == '%' || c == 'x' || c == 'e' || c == '9')
	}
	vals := []float64{0, -5, 1234.5, 0.00012, -0.5, 1e21, 5e-324}
	v := vals[verifChoose(len(vals))]
	s, err := FormatNumber(v, p, NewDecimalFormat())
	if err == nil {
		verifAssert(len(s) > 0 || len(p) == 0, "formatnumber-renders-something")
	}
}

// VerifH_C18_Exponent: with an exponent picture the mantissa scaling loops terminate for every value
// in +-[1e-4, 1e4] and for zero, and the rendered numeral has the picture's shape.
func VerifH_C18_Exponent() {
	v := verifFloat()
	verifAssume(v == v)
	av := v
	if av < 0 {
		av = -av
	}
	verifAssume(av == 0 || (av >= 1e-4 && av <= 1e4))
	pics := []string{"0.0e0", "00.0e0", "#0.00e00"}
	p := pics[verifChoose(len(pics))]
	s, err := FormatNumber(v, p, NewDecimalFormat())
	verifAssert(err == nil, "exponent-picture-renders")
	if err != nil {
		return
	}
	// shape: [-] digits . digits e [-] digits
	i := 0
	if i < len(s) && s[i] == '-' {
		verifAssert(v < 0, "minus-only-for-negative")
		i++
	}
	nint := 0
	for i < len(s) && s[i] >= '0' && s[i] <= '9' {
		i++
		nint++
	}
	verifAssert(nint >= 1 && i < len(s) && s[i] == '.', "exponent-mantissa-integer-part")
	i++
	nfrac := 0
	for i < len(s) && s[i] >= '0' && s[i] <= '9' {
		i++
		nfrac++
	}
	verifAssert(nfrac >= 1 && i < len(s) && s[i] == 'e', "exponent-mantissa-fraction-part")
	i++
	if i < len(s) && s[i] == '-' {
		i++
	}
	nexp := 0
	for i < len(s) && s[i] >= '0' && s[i] <= '9' {
		i++
		nexp++
	}
	verifAssert(nexp >= 1 && i == len(s), "exponent-part")
}

// VerifH_C18_Grouping: for pictures with regular grouping the separators sit exactly at the
// picture's positions, the mandatory digits are present, and prefix/suffix/minus are applied, for
// every value in (-1e7, 1e7) (the numeral's digits are opaque: decimal conversion is the library's).
func VerifH_C18_Grouping() {
	v := verifFloat()
	verifAssume(v == v && v > -1e7 && v < 1e7)
	type pc struct {
		pic            string
		group          int
		minInt         int
		minFrac, frac  int
		prefix, suffix string
	}
	pics := []pc{{"#,##0.00", 3, 1, 2, 2, "", ""}, {"0000", 0, 4, 0, 0, "", ""}, {"x#,#0.0#y", 2, 1, 1, 2, "x", "y"}, {"#0.#", 0, 1, 0, 1, "", ""}}
	p := pics[verifChoose(len(pics))]
	s, err := FormatNumber(v, p.pic, NewDecimalFormat())
	verifAssert(err == nil, "grouping-picture-renders")
	if err != nil {
		return
	}
	// strip affixes and sign
	i := 0
	if v < 0 {
		verifAssert(len(s) > 0 && s[0] == '-', "negative-has-minus")
		i = 1
	}
	verifAssert(len(s) >= i+len(p.prefix)+len(p.suffix) && s[i:i+len(p.prefix)] == p.prefix && s[len(s)-len(p.suffix):] == p.suffix, "prefix-and-suffix")
	body := s[i+len(p.prefix) : len(s)-len(p.suffix)]
	dot := -1
	for k := 0; k < len(body); k++ {
		if body[k] == '.' {
			dot = k
		}
	}
	ip, fp := body, ""
	if dot >= 0 {
		ip, fp = body[:dot], body[dot+1:]
	}
	// integer part: digits with separators every p.group from the right
	nd := 0
	for k := len(ip) - 1; k >= 0; k-- {
		pos := len(ip) - 1 - k // distance from the right, counting separators
		if p.group > 0 && pos%(p.group+1) == p.group {
			verifAssert(ip[k] == ',', "group-separator-position")
		} else {
			verifAssert(ip[k] >= '0' && ip[k] <= '9', "integer-digit")
			nd++
		}
	}
	verifAssert(nd >= p.minInt, "mandatory-integer-digits")
	verifAssert(len(ip) == 0 || ip[0] != ',', "no-leading-separator")
	verifAssert(len(fp) >= p.minFrac && len(fp) <= p.frac, "fraction-digit-count")
	if p.frac == 0 || (len(fp) == 0) {
		verifAssert(dot < 0 || len(fp) > 0, "no-dangling-decimal-separator")
	}
}

// VerifH_C18_PictureRound: the rounding kernel of $formatNumber at fraction digit 0 is half-to-even
// for every double below 2^52 in magnitude (the decimal scaling step is the identity there), and at
// 1 and 2 fraction digits on exact binary ties of either sign.
func VerifH_C18_PictureRound() {
	if verifChoose(2) == 0 {
		x := verifFloat()
		verifAssume(!math.IsNaN(x) && math.Abs(x) < 4503599627370496.0)
		got := round(x, 0)
		want := math.RoundToEven(x)
		verifAssert(got == want, "picture-round-half-even")
		verifAssert(!(got == 0 && math.Signbit(got)), "picture-round-no-negative-zero")
		return
	}
	type tc struct {
		x    float64
		prec int
		want float64
	}
	cases := []tc{{0.125, 2, 0.12}, {0.375, 2, 0.38}, {-0.125, 2, -0.12}, {-0.375, 2, -0.38}, {2.5, 0, 2}, {-2.5, 0, -2}, {-3.5, 0, -4}, {0.25, 1, 0.2}, {0.75, 1, 0.8}, {-0.75, 1, -0.8}, {-0.25, 1, -0.2},
		{1.5, 0, 2}, {-1.5, 0, -2}, {-0.5, 0, 0}, {0.5, 0, 0}}
	c := cases[verifChoose(len(cases))]
	verifAssert(round(c.x, c.prec) == c.want, "picture-round-decimal-ties")
}

// VerifH_C18_Separators: pictures whose integer part has 2..3 groups and whose fraction part has
// 1..3 groups, every group of symbolic size 1..3 (regular and irregular grouping), on numbers with
// 1..7 integer digits: formatting terminates, the digits are those of the ungrouped picture, and a
// separator appears exactly at each picture position that has a digit on both sides.
func VerifH_C18_Separators() {
	ng := 2 + verifChoose(2)
	sizes := make([]int, ng)
	for i := range sizes {
		sizes[i] = 1 + verifChoose(verifParam("G", 3))
	}
	mand := verifChoose(2) // 0: only the last digit mandatory; 1: the whole last group mandatory
	pic, plain := "", ""
	for i, sz := range sizes {
		for k := 0; k < sz; k++ {
			c := "#"
			if i == ng-1 && (k == sz-1 || mand == 1) {
				c = "0"
			}
			pic += c
			plain += c
		}
		if i < ng-1 {
			pic += ","
		}
	}
	// positions from the right, in digits
	var positions []int
	acc := 0
	for i := ng - 1; i > 0; i-- {
		acc += sizes[i]
		positions = append(positions, acc)
	}
	nf := verifChoose(4) // fraction groups (0: no fraction part)
	var fpos []int
	if nf > 0 {
		pic += "."
		plain += "."
		acc = 0
		for i := 0; i < nf; i++ {
			sz := 1 + verifChoose(2)
			for k := 0; k < sz; k++ {
				pic += "0"
				plain += "0"
			}
			acc += sz
			if i < nf-1 {
				pic += ","
				fpos = append(fpos, acc)
			}
		}
	}
	vals := []float64{5, 12, 123, 1234, 12345, 123456, 1234567}
	v := vals[verifChoose(len(vals))]
	verifNote(pic)
	got, err := FormatNumber(v, pic, NewDecimalFormat())
	want, err2 := FormatNumber(v, plain, NewDecimalFormat())
	verifAssert(err == nil && err2 == nil, "grouped-picture-renders")
	if err != nil || err2 != nil {
		return
	}
	ip, fp := want, ""
	for k := 0; k < len(want); k++ {
		if want[k] == '.' {
			ip, fp = want[:k], want[k+1:]
		}
	}
	// regular grouping (positions G, 2G, ..., nG) repeats at every multiple of G
	regular := true
	for k, p := range positions {
		if p != (k+1)*positions[0] {
			regular = false
		}
	}
	exp := ""
	for k := 0; k < len(ip); k++ {
		fromRight := len(ip) - k
		if k > 0 {
			if regular && fromRight%positions[0] == 0 {
				exp += ","
			}
			for _, p := range positions {
				if !regular && p == fromRight {
					exp += ","
				}
			}
		}
		exp += ip[k : k+1]
	}
	if nf > 0 {
		exp += "."
		for k := 0; k < len(fp); k++ {
			if k > 0 {
				for _, p := range fpos {
					if p == k {
						exp += ","
					}
				}
			}
			exp += fp[k : k+1]
		}
	}
	verifAssert(got == exp, "separators-at-picture-positions")
}
