//go:build verif

package jsonata

import "reflect"

// VerifH_C07_InputFrozen: no evaluation writes into the caller's document or into a registered
// variable (write-set monitor), including transforms whose pattern reaches outside the copied
// argument; the document is deep-equal to a copy taken before.
var c07Templates = []string{
	`$sort(arr)`, `$reverse(arr)`, `$append(arr, arr)`, `$shuffle(arr)`, `$zip(arr, arr)`, `$merge([o, {"p": 0}])`, `$distinct(arr)`, `arr^(>$)`, `objs^(k)`, `objs{$string(k): v}`,
	`o ~> |$|{"z": 1}|`, `$ ~> |o|{"z": 1}|`, `$ ~> |objs|{"z": k}, ["v"]|`, `$ ~> |**|{"z": 1}|`, `$ ~> |$$|{"z": 1}|`, `$ ~> |$$.o|{"z": 1}|`, `o ~> |$$.o|{"z": 1}|`, `o ~> |$var|{"z": 1}|`,
	`$var ~> |$|{"z": 1}|`, `$map(objs, |$|{"z": 1}|)`, `objs ~> |$|{"z": 1}| ~> |$|{"y": 2}|`, `o ~> |$|{"p": {"deep": 1}}|`, `$ ~> |o|{}, ["p", "q"]|`, `(o ~> |$|{"z": 1}|).z`,
	`$each(o, function($v, $k){$k})`, `$sift(o, function($v){$v > 0})`, `$spread(o)`, `$keys(o)`, `arr[0]`, `objs.v`, `objs[k > 0]`, `[arr, arr]`, `{"a": arr}`, `$map(arr, function($v){$v})`,
	`$append(head, 9)`, `$append(head, arr)`, `$reverse(head)`, `$sort(head)`, `[head, 9]`, `$ ~> |rows[0]|{"seen": true}, "v"|`, `$ ~> |rows|{"seen": true}|`, `rows ~> |$|{"z": 1}|`,
	`$ ~> |objs[0]|{"z": 1}|`, `$merge([o, eo])`, `$zip(head, arr)`, `$shuffle(head)`, `$distinct(head)`,
	`eo ~> |$|{"x": 1}|`, `$map([eo, o], |$|{"seen": true}|)`, `e ~> |$|{"x": 1}|`, `$ ~> |eo|{"x": 1}|`, `[eo] ~> |$|{"x": 1}|`, `nul ~> |$|{"x": 1}|`, `$sort(all, function($x, $y){$x > $y})`,
	`$sort([1, 3, 2], function($x, $y){$x > $y})`, `$sort(head, function($x, $y){$x > $y})`,
	`$reduce(arr, function($x, $y){$x + $y})`, `$filter(arr, function($v){$v > 0})`, `$single(arr, function($v){$v > 100})`, `$sort(objs, function($x, $y){$x.k > $y.k})`,
}

func c07Doc() (map[string]interface{}, map[string]interface{}) {
	var n, m float64
	if verifParam("CONCRETE", 0) == 1 {
		n, m = 1.5, -2
	} else {
		n, m = hFinite(), hFinite()
	}
	build := func() map[string]interface{} {
		shared := map[string]interface{}{"k": n, "v": m}
		all := []interface{}{n, m, 3.0, 4.0}
		return map[string]interface{}{
			"arr":  []interface{}{n, m, 3.0},
			"all":  all,
			"head": all[:2], // a slice with spare capacity whose backing array is visible elsewhere
			"o":    map[string]interface{}{"p": n, "q": m},
			"objs": []interface{}{shared, map[string]interface{}{"k": m, "v": n}, shared}, // shared sub-structure
			"rows": []interface{}{[]interface{}{map[string]interface{}{"v": n}, map[string]interface{}{"v": m}}, []interface{}{map[string]interface{}{"v": 3.0}}},
			"e":    []interface{}{},
			"eo":   map[string]interface{}{},
			"nul":  nil,
		}
	}
	return build(), build()
}

func VerifH_C07_InputFrozen() {
	t := c07Templates[verifChoose(len(c07Templates))]
	verifNote(t)
	e, err := Compile(t)
	if err != nil {
		verifFail("c07-template-compiles")
		return
	}
	doc, copyOfDoc := c07Doc()
	v, _ := c07Doc()
	vcopy := map[string]interface{}{"p": v["o"].(map[string]interface{})["p"], "q": v["o"].(map[string]interface{})["q"]}
	variable := v["o"]
	if err := e.RegisterVars(map[string]interface{}{"var": variable}); err != nil {
		verifFail("c07-register-var")
		return
	}
	// Transforms whose pattern selects objects outside the copied argument (the root input $$ or
	// a variable bound to an input node) get their own ids: the port writes into the caller's values
	// there (known finding, see known_findings.json); everything else must stay clean.
	suffix := ""
	switch t {
	case `$ ~> |$$|{"z": 1}|`, `$ ~> |$$.o|{"z": 1}|`, `o ~> |$$.o|{"z": 1}|`, `o ~> |$var|{"z": 1}|`:
		suffix = ":transform-pattern-outside-copy"
		verifTag("transform-pattern-outside-copy")
	}
	verifFreeze()
	_, _ = e.Eval(doc)
	verifThaw()
	verifAssert(reflect.DeepEqual(doc, copyOfDoc), "input-document-unchanged"+suffix)
	verifAssert(reflect.DeepEqual(variable, interface{}(vcopy)), "registered-variable-unchanged"+suffix)
}

// VerifH_C07_Transform: | pattern | update, delete | returns a copy in which exactly the selected
// objects have the update's members set and the deleted names removed; everything else is equal.
func VerifH_C07_Transform() {
	n, m, u := hFinite(), hFinite(), hFinite()
	mkDoc := func() map[string]interface{} {
		return map[string]interface{}{
			"keep": n,
			"o":    map[string]interface{}{"p": n, "q": m},
			"list": []interface{}{map[string]interface{}{"p": m, "x": 1.0}, map[string]interface{}{"q": n}},
		}
	}
	doc := mkDoc()
	doc["u"] = u
	want := mkDoc()
	want["u"] = u
	var expr string
	switch verifChoose(9) {
	case 6: // an update object taken from the data, with a null member: the member is set to null
		doc["nu"] = map[string]interface{}{"p": nil, "c": 1.0}
		want["nu"] = map[string]interface{}{"p": nil, "c": 1.0}
		expr = `$ ~> |o|$$.nu|`
		want["o"] = map[string]interface{}{"p": nil, "q": m, "c": 1.0}
	case 7: // an update computed by a built-in function
		doc["nu"] = map[string]interface{}{"c": 1.0}
		want["nu"] = map[string]interface{}{"c": 1.0}
		expr = `$ ~> |o|$merge([$$.nu, {"d": $$.u}])|`
		want["o"] = map[string]interface{}{"p": n, "q": m, "c": 1.0, "d": u}
	case 8: // deletes given by a path into the data
		doc["del"] = []interface{}{"p", "nope"}
		want["del"] = []interface{}{"p", "nope"}
		expr = `$ ~> |o|{}, $$.del|`
		want["o"] = map[string]interface{}{"q": m}
	case 0:
		expr = `$ ~> |o|{"z": $$.u}|`
		want["o"].(map[string]interface{})["z"] = u
	case 1:
		expr = `$ ~> |o|{"p": $$.u}, "q"|`
		want["o"] = map[string]interface{}{"p": u}
	case 2:
		expr = `$ ~> |list|{"z": 1}, ["x", "nope"]|`
		want["list"] = []interface{}{map[string]interface{}{"p": m, "z": 1.0}, map[string]interface{}{"q": n, "z": 1.0}}
	case 3:
		expr = `$ ~> |nope|{"z": 1}|`
	case 4:
		got := hEval(`$ ~> |o|5|`, doc)
		verifAssert(got.kind == oEvalError && got.etype == ErrIllegalUpdate, "transform-update-not-object-is-error")
		return
	case 5:
		got := hEval(`$ ~> |o|{}, [1]|`, doc)
		verifAssert(got.kind == oEvalError && got.etype == ErrIllegalDelete, "transform-delete-not-strings-is-error")
		return
	}
	got := hEval(expr, doc)
	verifAssert(got.kind == oValue, "transform-evaluates")
	if got.kind == oValue {
		verifAssert(reflect.DeepEqual(got.val, interface{}(want)), "transform-result")
	}
}
