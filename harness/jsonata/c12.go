//go:build verif

package jsonata

import "reflect"

// ---------------------------------------------------------------------------------------------
// C12 — lexical scoping, closures, signatures, partial application and chaining.
// ---------------------------------------------------------------------------------------------

// parameter type forms of a signature with the set of argument kinds each accepts
type c12PType struct {
	text    string
	accepts func(k int) bool
}

// argument kinds
const (
	aMissing = iota
	aNumber
	aString
	aBool
	aNumArray
	aStrArray
	aObject
	aFunc
	aKinds
)

var c12ArgText = []string{"nothing", "1", `"s"`, "true", "[1,2]", `["a","b"]`, `{"k":1}`, "$sum"}

func c12IsJSON(k int) bool { return k >= aNumber && k <= aObject }

var c12PTypes = []c12PType{
	{"n", func(k int) bool { return k == aNumber }},
	{"s", func(k int) bool { return k == aString }},
	{"a<n>", func(k int) bool { return k == aNumber || k == aNumArray }},
	{"(sf)", func(k int) bool { return k == aString || k == aFunc }},
	{"j", c12IsJSON},
	{"(na)", func(k int) bool { return k == aNumber || k == aNumArray || k == aStrArray }}, // a union does not force scalars into arrays
	{"o", func(k int) bool { return k == aObject }},
	{"a", func(k int) bool { return true }}, // a scalar is forced into a one-member array
	{"b", func(k int) bool { return k == aBool }},
	{"f", func(k int) bool { return k == aFunc }},
	{"x", func(k int) bool { return true }},
	{"a<s>", func(k int) bool { return k == aString || k == aStrArray }},
	{"(ns)", func(k int) bool { return k == aNumber || k == aString }},
	{"(sa)", func(k int) bool { return k == aString || k == aNumArray || k == aStrArray }},
}

var c12Opts = []string{"", "?", "+", "-"}

// VerifH_C12_Signature: a declared signature makes a call fail with an argument-count or
// argument-type error exactly when the supplied arguments do not fit it.
func VerifH_C12_Signature() {
	np := 1 + verifChoose(verifParam("P", 2))
	ptypes := make([]int, np)
	popts := make([]int, np)
	sig := ""
	names := ""
	for i := 0; i < np; i++ {
		ptypes[i] = verifChoose(verifParam("T", len(c12PTypes)))
		popts[i] = verifChoose(len(c12Opts))
		sig += c12PTypes[ptypes[i]].text + c12Opts[popts[i]]
		if i > 0 {
			names += ", "
		}
		names += []string{"$a", "$b", "$c"}[i]
	}
	na := verifChoose(verifParam("A", 3) + 1)
	kinds := make([]int, na)
	args := ""
	for i := 0; i < na; i++ {
		kinds[i] = verifChoose(aKinds)
		if i > 0 {
			args += ", "
		}
		args += c12ArgText[kinds[i]]
	}
	// the context item is the number 7 (used by '-' parameters)
	expr := `n.(function(` + names + `)<` + sig + `:s>{"ok"}(` + args + `))`
	verifNote(expr)
	got := hEval(expr, map[string]interface{}{"n": 7.0})

	// ---- reference "fits" ----
	eff := append([]int{}, kinds...)
	if len(eff) < np && c12Opts[popts[0]] == "-" {
		eff = append([]int{aNumber}, eff...) // context item 7
	}
	for i := len(eff); i < np; i++ {
		if c12Opts[popts[i]] != "?" {
			break
		}
		eff = append(eff, aMissing)
	}
	variadic := c12Opts[popts[np-1]] == "+"
	if len(eff) < np || (len(eff) > np && !variadic) {
		verifAssert(got.kind == oArgCount, "signature-count-error-iff-count-mismatch")
		return
	}
	badPos := 0
	for i, k := range eff {
		if k == aMissing {
			continue
		}
		p := i
		if p >= np {
			p = np - 1
		}
		if !c12PTypes[ptypes[p]].accepts(k) {
			badPos = i + 1
			break
		}
	}
	if badPos > 0 {
		verifAssert(got.kind == oArgType, "signature-type-error-iff-type-mismatch")
		if e, ok := got.err.(*ArgTypeError); ok {
			verifAssert(e.Which == badPos, "signature-type-error-position")
		}
		return
	}
	verifAssert(got.kind == oValue && got.val == "ok", "signature-fitting-call-succeeds")
}

// VerifH_C12_Scope: block scoping, shadowing, closures, recursion, missing and surplus arguments, with
// symbolic values.
func VerifH_C12_Scope() {
	x := hFinite()
	y := hFinite()
	doc := map[string]interface{}{"x": x, "y": y, "o": map[string]interface{}{"x": y}}
	type tc struct {
		expr string
		want interface{} // nil = no value
	}
	cases := []tc{
		{`($a := x; $a)`, x},                                                // later-visible
		{`($a := x; ($a := y; $a); $a)`, x},                                 // inner shadowing leaves the outer binding
		{`(($a := x; $a); $a)`, nil},                                        // invisible outside
		{`($a := x; $f := function($a){$a}; $f(y))`, y},                     // parameters shadow
		{`($a := x; $f := function($b){$a}; $a := y; $f(0))`, y},            // functions see the block's binding (same scope, updated)
		{`($f := ($a := x; function(){$a}); $a := y; $f())`, x},             // closure keeps definition-site bindings
		{`($f := o.(function(){x}); $f())`, y},                              // closure keeps definition-site context
		{`($f := function($n){$n = 0 ? x : $f($n - 1)}; $f(3))`, x},         // recursion through the bound name
		{`(function($a, $b){$b})(x)`, nil},                                  // missing arguments are no value
		{`(function($a){$a})(x, y)`, x},                                     // surplus ignored
		{`($a := x; $g := function(){($a := y; $a)}; [$g(), $a])`, []interface{}{y, x}}, // assignment in callee block is local
		{`($add := function($p){function($q){$p + $q}}; $add(x)(0))`, x + 0}, // returned closure
		{`$map([x], function($v){$v})`, []interface{}{x}},                   // lambda passed to a higher-order built-in
		// every call runs in a new scope, whatever the number of parameters and the shape of the body
		{`($a := x; $f := function(){$a := y}; [$f(), $a])`, []interface{}{y, x}},
		{`($a := x; $f := function($p){$a := y}; [$f(0), $a])`, []interface{}{y, x}},
		{`($a := x; $f := function($p, $q){$a := $q}; [$f(0, y), $a])`, []interface{}{y, x}},
		{`($a := x; $f := function(){$a := y}; $f(); $f(); $a)`, x},
		{`($a := x; $f := function(){$a := y}; $g := function(){$f()}; [$g(), $a])`, []interface{}{y, x}},
		{`($a := x; $f := function($v){$a := $v}; $r := y ~> $f; [$r, $a])`, []interface{}{y, x}},
		{`($a := x; $r := $map([y], function($v){$a := $v}); [$r, $a])`, []interface{}{y, x}},
		{`($f := function(){$z := y}; $f(); $z)`, nil},                      // a callee's binding is invisible to the caller
		{`($f := function($p){$p}; $f(x); $p)`, nil},                        // parameters are invisible to the caller
		{`($a := x; $f := function(){$a}; $h := function($a){$f()}; $h(y))`, x}, // lexical, not dynamic, scoping
	}
	c := cases[verifChoose(len(cases))]
	verifNote(c.expr)
	got := hEval(c.expr, doc)
	if c.want == nil {
		verifAssert(got.kind == oUndefined, "scope-no-value")
		return
	}
	verifAssert(got.kind == oValue, "scope-evaluates")
	if got.kind == oValue {
		verifAssert(reflect.DeepEqual(got.val, c.want), "scope-value")
	}
}

// VerifH_C12_PartialChain: f(?, x) is a function of its placeholders; v ~> f(a) = f(v, a); f ~> g
// applies f then g; calling a non-function is an error.
const c12Steps = `($s1 := function($l){$append($l, 1)}; $s2 := function($l){$append($l, 2)}; $s3 := function($l){$append($l, 3)}; $i := function($l){$append($l, 8)}; $j := function($l){$append($l, 9)}; `

func VerifH_C12_PartialChain() {
	a, b, c := hFinite(), hFinite(), hFinite()
	doc := map[string]interface{}{"a": a, "b": b, "c": c}
	rec := `function($p, $q, $r){[$p, $q, $r]}`
	type tc struct {
		expr string
		want interface{}
		kind int
		et   ErrType
	}
	lst := func(v ...interface{}) interface{} { return v }
	cases := []tc{
		{`(` + rec + `)(?, b, c)(a)`, lst(a, b, c), oValue, 0},
		{`(` + rec + `)(a, ?, c)(b)`, lst(a, b, c), oValue, 0},
		{`(` + rec + `)(a, b, ?)(c)`, lst(a, b, c), oValue, 0},
		{`(` + rec + `)(?, b, ?)(a, c)`, lst(a, b, c), oValue, 0},
		{`(` + rec + `)(?, ?, ?)(a, b, c)`, lst(a, b, c), oValue, 0},
		{`(` + rec + `)(?, ?, c)(a)`, lst(a, c), oValue, 0}, // a missing placeholder argument is no value
		{`a ~> (` + rec + `)(b, c)`, lst(a, b, c), oValue, 0},
		{`a ~> (function($p){[$p, b]})`, lst(a, b), oValue, 0},
		{`a ~> (function($p){[$p, b]}) ~> (function($l){$l[1]})`, b, oValue, 0},
		{`(function($p){[$p, b]} ~> function($l){$l[0]})(a)`, a, oValue, 0},
		{`($f := function($p){$p + 1}; $g := function($p){$p * 2}; a ~> $f ~> $g)`, (a + 1) * 2, oValue, 0},
		{`($f := function($p){$p + 1}; $g := function($p){$p * 2}; ($f ~> $g)(a))`, (a + 1) * 2, oValue, 0},
		// a composition bound to a variable and extended twice: the extensions are independent
		{c12Steps + `$c := $s1 ~> $s2; $x := $c ~> $i; $y := $c ~> $j; {"x": $x([a]), "y": $y([a]), "c": $c([a])})`,
			map[string]interface{}{"x": lst(a, 1.0, 2.0, 8.0), "y": lst(a, 1.0, 2.0, 9.0), "c": lst(a, 1.0, 2.0)}, oValue, 0},
		{c12Steps + `$c := $s1 ~> $s2 ~> $s3; $x := $c ~> $i; $y := $c ~> $j; {"x": $x([a]), "y": $y([a]), "c": $c([a])})`,
			map[string]interface{}{"x": lst(a, 1.0, 2.0, 3.0, 8.0), "y": lst(a, 1.0, 2.0, 3.0, 9.0), "c": lst(a, 1.0, 2.0, 3.0)}, oValue, 0},
		{c12Steps + `$c := $s1 ~> $s2 ~> $s3 ~> $s1; $x := $c ~> $i; $y := $c ~> $j ~> $i; {"x": $x([a]), "y": $y([a]), "c": $c([a])})`,
			map[string]interface{}{"x": lst(a, 1.0, 2.0, 3.0, 1.0, 8.0), "y": lst(a, 1.0, 2.0, 3.0, 1.0, 9.0, 8.0), "c": lst(a, 1.0, 2.0, 3.0, 1.0)}, oValue, 0},
		{c12Steps + `$c := $s1 ~> $s2 ~> $s3; $x := $c ~> $i; $y := $c ~> $j; $z := $x ~> $j; {"x": $x([a]), "y": $y([a]), "z": $z([a])})`,
			map[string]interface{}{"x": lst(a, 1.0, 2.0, 3.0, 8.0), "y": lst(a, 1.0, 2.0, 3.0, 9.0), "z": lst(a, 1.0, 2.0, 3.0, 8.0, 9.0)}, oValue, 0},
		{`a(b)`, nil, oEvalError, ErrNonCallable},
		{`a ~> b`, nil, oEvalError, ErrNonCallableApply},
		{`a(?, b)`, nil, oEvalError, ErrNonCallablePartial},
	}
	t := cases[verifChoose(len(cases))]
	verifNote(t.expr)
	got := hEval(t.expr, doc)
	if f, ok := t.want.(float64); ok && (f != f || f-f != 0) {
		verifAssert(got.kind == oEvalError, "partial-chain-nonfinite-is-error")
		return // non-finite arithmetic is an error (C03)
	}
	verifAssert(got.kind == t.kind, "partial-chain-outcome-kind")
	if got.kind != t.kind {
		return
	}
	if t.kind == oEvalError {
		verifAssert(got.etype == t.et, "partial-chain-error-kind")
		return
	}
	if f, ok := t.want.(float64); ok && (f != f || f-f != 0) {
		return // non-finite arithmetic is an error (C03)
	}
	verifAssert(reflect.DeepEqual(got.val, t.want), "partial-chain-value")
}

// VerifH_C12_Context: built-ins that default their first argument to the context item use the
// context item of their own call site, however calls are nested in one another's arguments.
func VerifH_C12_Context() {
	s1 := hSafeString(2)
	s2 := hSafeString(2)
	doc := map[string]interface{}{"a": map[string]interface{}{"v": s1}, "b": map[string]interface{}{"v": s2}}
	type tc struct {
		expr string
		want interface{}
	}
	cases := []tc{
		{`a.v.$string()`, s1},
		{`a.v.$length()`, hRuneCount(s1)},
		{`a.v.$uppercase()`, hUpperASCII(s1)},
		{`a.v.$substringBefore($$.b.v.$substringBefore("z"))`, hBefore(s1, hBefore(s2, "z"))},
		{`a.v.$substringBefore($$.b.v.$string())`, hBefore(s1, s2)},
		{`a.v.$contains($$.b.v.$lowercase())`, hContains(s1, hLowerASCII(s2))},
		{`a.v.($string() & $$.b.v.$string())`, s1 + s2},
		{`a.v.$pad($$.b.v.$length() + 2)`, hPadRight(s1, hRuneCount(s2)+2)},
		{`b.v.$string() & a.v.$string()`, s2 + s1},
		{`a.v.$join([$string(), $$.b.v.$string()], "-")`, nil},
	}
	c := cases[verifChoose(len(cases)-1)]
	verifNote(c.expr)
	got := hEval(c.expr, doc)
	verifAssert(got.kind == oValue, "context-evaluates")
	if got.kind == oValue {
		verifAssert(reflect.DeepEqual(got.val, c.want), "context-of-own-call-site")
	}
}

func hRuneCount(s string) int { return len(s) } // strings here are ASCII

func hUpperASCII(s string) string {
	b := []byte(s)
	for i := range b {
		if b[i] >= 'a' && b[i] <= 'z' {
			b[i] -= 32
		}
	}
	return string(b)
}

func hLowerASCII(s string) string {
	b := []byte(s)
	for i := range b {
		if b[i] >= 'A' && b[i] <= 'Z' {
			b[i] += 32
		}
	}
	return string(b)
}

func hIndex(s, sub string) int {
	for i := 0; i+len(sub) <= len(s); i++ {
		if s[i:i+len(sub)] == sub {
			return i
		}
	}
	return -1
}

func hBefore(s, sub string) string {
	if i := hIndex(s, sub); i >= 0 {
		return s[:i]
	}
	return s
}

func hContains(s, sub string) bool { return hIndex(s, sub) >= 0 }

func hPadRight(s string, w int) string {
	for len(s) < w {
		s += " "
	}
	return s
}
