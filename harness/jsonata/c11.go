//go:build verif

package jsonata

import (
	"encoding/json"
	"reflect"
)

// ---------------------------------------------------------------------------------------------
// C11 — JSON texts are expressions that denote themselves (structure level).
// ---------------------------------------------------------------------------------------------

var c11Texts = []string{
	`null`, `true`, `false`, `0`, `-0`, `-1.5e2`, `1E+2`, `12345678901234567890`, `0.1`, `""`, `"a\"b\\c\/d\b\f\n\r\t"`, `"é😀"`,
	`[]`, `{}`, `[[]]`, `[{}]`, `{"a":[]}`, `{"a":{}}`, `[[1]]`, `[[1,2],[3]]`, `[[[1]]]`, `[1,[2,[3,[4]]]]`, `[null]`, `[null,[null]]`,
	`{"a":[[1]],"b":{"c":[[]]}}`, `[1,"a",true,null,{"k":[false]}]`, ` [ 1 , 2 ] `, "{\n\t\"a\" :\r\n 1 }", `[[],[[]],{}]`, `{"and":1,"or":2,"in":3}`,
	`"$x.y[0]{z}"`, `["*","**","%"]`, `[1e-7,1e21,-1e-7]`, `{"a":null}`,
}

// VerifH_C11_Struct: JSON texts (nested arrays/objects, empties, literals, whitespace) evaluate to what
// encoding/json decodes; one hole holds an arbitrary safe string to make leaves symbolic.
func VerifH_C11_Struct() {
	i := verifChoose(len(c11Texts))
	text := c11Texts[i]
	var want interface{}
	if err := json.Unmarshal([]byte(text), &want); err != nil {
		verifFail("c11-harness-text-not-json")
		return
	}
	// a JSON text denotes itself whatever the input document is
	for _, doc := range []interface{}{nil, map[string]interface{}{"a": 1.0}, []interface{}{}, []interface{}{1.0, map[string]interface{}{"a": 2.0}}, map[string]interface{}{}, "str", 5.0} {
		got := hEval(text, doc)
		if want == nil {
			verifAssert(got.kind == oValue && got.val == nil, "c11-null")
			continue
		}
		verifAssert(got.kind == oValue, "c11-evaluates")
		if got.kind == oValue {
			verifAssert(reflect.DeepEqual(hNorm(got.val), want), "c11-denotes-itself")
		}
	}
}

// VerifH_C11_Holes: nested constructors with symbolic string leaves keep their structure.
func VerifH_C11_Holes() {
	s := hSafeString(verifParam("N", 2))
	t := hSafeString(verifParam("N", 2))
	q := `"` + s + `"`
	r := `"` + t + `"`
	type tc struct {
		text string
		want interface{}
	}
	cases := []tc{
		{`[` + q + `]`, []interface{}{s}},
		{`[[` + q + `]]`, []interface{}{[]interface{}{s}}},
		{`[[` + q + `],[` + r + `]]`, []interface{}{[]interface{}{s}, []interface{}{t}}},
		{`{"k":[` + q + `]}`, map[string]interface{}{"k": []interface{}{s}}},
		{`{"k":[[` + q + `,` + r + `]]}`, map[string]interface{}{"k": []interface{}{[]interface{}{s, t}}}},
		{`[{"k":` + q + `},[]]`, []interface{}{map[string]interface{}{"k": s}, []interface{}{}}},
		{q, s},
	}
	c := cases[verifChoose(len(cases))]
	got := hEval(c.text, nil)
	verifAssert(got.kind == oValue, "c11-hole-evaluates")
	if got.kind == oValue {
		verifAssert(reflect.DeepEqual(got.val, c.want), "c11-hole-denotes-itself")
	}
}
