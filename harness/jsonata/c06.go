//go:build verif

package jsonata

import (
	"encoding/json"
	"sort"
	"strings"
)

// ---------------------------------------------------------------------------------------------
// C06 — concurrent evaluations are isolated and race-free.
//
// The thread bodies run under the engine's lock-set monitor (engine/internal/eng/sched.go): every
// access of a body to memory that existed before the threads started is recorded with the locks
// held; two accesses to the same object from different threads, one of them a write, without a
// common lock are a data race in some interleaving. Isolation: each thread's outcomes are compared
// with the outcomes of the same evaluations run alone (on a separately compiled expression).
// Natively the bodies are real goroutines and the replay runs under the race detector.
// ---------------------------------------------------------------------------------------------

func c06Doc2() map[string]interface{} {
	return map[string]interface{}{
		"n":    4.0,
		"s":    "b c wörld",
		"arr1": append(make([]interface{}, 0, 4), 7.0),
		"arr2": []interface{}{[]interface{}{8.0}},
		"obj1": map[string]interface{}{"a": 5.0},
		"objs": []interface{}{map[string]interface{}{"a": 6.0, "b": "y"}, map[string]interface{}{"a": "q"}, nil, []interface{}{}},
	}
}

// c06Program draws a program from the C09 generator: every built-in with 0..3 arguments of every
// kind (context-defaulting built-ins, higher-order functions with lambdas, regexes, sorts) or a node
// template (paths, predicates, grouping, sorting, chains, partial application, transforms, lambdas
// with signatures, blocks with variables).
func c06Program() string {
	// function values, a lambda and a regex come first so that the quick tier has them
	args := []string{"s", "$sum", "function($x){$x}", "n", "/a/", "arr1", "obj1", "nothing", "$uppercase", "$contains(?)"}
	for _, a := range c09Args {
		dup := false
		for _, b := range args {
			dup = dup || a == b
		}
		if !dup {
			args = append(args, a)
		}
	}
	nargs := verifParam("ARGS", 8)
	if nargs > len(args) {
		nargs = len(args)
	}
	if verifChoose(2) == 0 {
		return c09BuiltinExprM(args[:nargs])
	}
	return c09NodeExprM(args[:nargs])
}

// c06Stable reports whether the program's outcome is a function of its input only.
func c06Stable(expr string) bool {
	for _, f := range []string{"$random", "$shuffle", "$now", "$millis"} {
		if strings.Contains(expr, f) {
			return false
		}
	}
	return true
}

// c06Outcome is an order-insensitive digest of an evaluation outcome (Go map order may differ from
// one evaluation to the next): the outcome class and the sorted bytes of the JSON encoding.
func c06Outcome(e *Expr, doc interface{}) string {
	o := hEvalExpr(e, doc)
	s := string(rune('0'+o.kind)) + string(o.etype) + ":"
	if o.kind == oValue {
		b, err := json.Marshal(o.val)
		if err != nil {
			return s + "!unmarshalable"
		}
		sort.Slice(b, func(i, j int) bool { return b[i] < b[j] })
		s += string(b)
	}
	return s
}

// VerifH_C06_SharedExpr: two goroutines loop over Eval of one shared compiled expression, on the
// same input or on goroutine-specific inputs.
func VerifH_C06_SharedExpr() {
	expr := c06Program()
	verifNote(expr)
	e, err := Compile(expr)
	if err != nil {
		return
	}
	ref, _ := Compile(expr)
	var d1, d2 interface{} = c09Doc(), c06Doc2()
	if verifBool() {
		d2 = d1
	}
	want1, want2 := c06Outcome(ref, d1), c06Outcome(ref, d2)
	var got1, got2 [2]string
	verifThreads(func() {
		for i := range got1 {
			got1[i] = c06Outcome(e, d1)
		}
	}, func() {
		for i := range got2 {
			got2[i] = c06Outcome(e, d2)
		}
	})
	if c06Stable(expr) {
		verifAssert(got1[0] == want1 && got1[1] == want1, "thread-1-outcome-as-when-run-alone")
		verifAssert(got2[0] == want2 && got2[1] == want2, "thread-2-outcome-as-when-run-alone")
	}
}

// VerifH_C06_OwnExpr: each goroutine compiles its own expression and evaluates it.
func VerifH_C06_OwnExpr() {
	expr := c06Program()
	verifNote(expr)
	ref, err := Compile(expr)
	if err != nil {
		return
	}
	var d1, d2 interface{} = c09Doc(), c06Doc2()
	want1, want2 := c06Outcome(ref, d1), c06Outcome(ref, d2)
	var got1, got2 string
	var ok1, ok2 bool
	verifThreads(func() {
		e, err := Compile(expr)
		if ok1 = err == nil; ok1 {
			got1 = c06Outcome(e, d1)
		}
	}, func() {
		e, err := Compile(expr)
		if ok2 = err == nil; ok2 {
			got2 = c06Outcome(e, d2)
		}
	})
	verifAssert(ok1 && ok2, "compiles-in-every-thread")
	if c06Stable(expr) {
		verifAssert(got1 == want1, "thread-1-outcome-as-when-run-alone")
		verifAssert(got2 == want2, "thread-2-outcome-as-when-run-alone")
	}
}

func c06Ext(x float64) float64 { return x + 1 }

// VerifH_C06_CompileRegister: package-level RegisterExts / RegisterVars run concurrently with Compile
// (and with evaluations of expressions compiled earlier).
func VerifH_C06_CompileRegister() {
	expr := c06Program()
	verifNote(expr)
	e0, err := Compile(expr)
	if err != nil {
		return
	}
	var d1 interface{} = c09Doc()
	want := c06Outcome(e0, d1)
	if verifBool() {
		// the package-level registry is already populated when the threads start
		_ = RegisterVars(map[string]interface{}{"zzc06pre": 0.0})
	}
	which := verifChoose(3)
	var got, got0 string
	var rerr error
	verifThreads(func() {
		e, err := Compile(expr)
		if err == nil {
			got = c06Outcome(e, d1)
		}
		got0 = c06Outcome(e0, d1)
	}, func() {
		switch which {
		case 0:
			rerr = RegisterExts(map[string]Extension{"zzc06": {Func: c06Ext}})
		case 1:
			rerr = RegisterVars(map[string]interface{}{"zzc06v": 1.0})
		default:
			rerr = RegisterExts(map[string]Extension{"zzc06": {Func: c06Ext}})
			if rerr == nil {
				rerr = RegisterVars(map[string]interface{}{"zzc06v": 2.0})
			}
		}
	})
	verifAssert(rerr == nil, "package-level-registration-succeeds")
	if c06Stable(expr) {
		verifAssert(got == want && got0 == want, "outcome-unaffected-by-unrelated-registration")
	}
}
