//go:build verif

package jsonata

import (
	"math"
	"reflect"
)

// ---------------------------------------------------------------------------------------------
// C03 — operators compute their defined results; missing / wrong-typed operands.
// ---------------------------------------------------------------------------------------------

// operand kinds
const (
	kMissing = iota
	kNumber
	kString
	kBool
	kNull
	kArray
	kObject
	kFunc
	kNumKinds
)

type c03Operand struct {
	kind int
	text string      // expression text denoting the operand
	num  float64     // kNumber value / member of the array / object
	str  string      // kString
	b    bool        // kBool
	val  interface{} // Go value as Eval would return it (nil for missing/null/function)
}

// c03MakeOperand builds an operand of the chosen kind, either as a member of doc (symbolic leaf) or as
// a literal (concrete leaf).
func c03MakeOperand(name string, kind int, lit bool, doc map[string]interface{}, wantConcreteNumber bool) c03Operand {
	o := c03Operand{kind: kind, text: name}
	switch kind {
	case kMissing:
		o.text = "missing_" + name
	case kNumber:
		if lit {
			o.num, o.text = 2, "2"
		} else if wantConcreteNumber {
			cands := []float64{0, 1.5, -3, 100, 1e21, 0.1, 2, 1}
			o.num = cands[verifChoose(len(cands))]
			doc[name] = o.num
		} else {
			o.num = hFinite()
			doc[name] = o.num
		}
		o.val = o.num
	case kString:
		if lit {
			o.str, o.text = "a", `"a"`
		} else {
			o.str = hSafeString(2)
			doc[name] = o.str
		}
		o.val = o.str
	case kBool:
		if lit {
			o.b, o.text = true, "true"
		} else {
			o.b = verifBool()
			doc[name] = o.b
		}
		o.val = o.b
	case kNull:
		o.text = "null"
	case kArray:
		if lit {
			o.num, o.text = 1, "[1]"
		} else {
			o.num = 1.5
			if !wantConcreteNumber {
				o.num = hFinite()
			}
			doc[name] = []interface{}{o.num}
		}
		o.val = []interface{}{o.num}
	case kObject:
		if lit {
			o.num, o.text = 1, `{"k":1}`
		} else {
			o.num = 1.5
			if !wantConcreteNumber {
				o.num = hFinite()
			}
			doc[name] = map[string]interface{}{"k": o.num}
		}
		o.val = map[string]interface{}{"k": o.num}
	case kFunc:
		o.text = "$sum"
	}
	return o
}

func c03Truthy(o c03Operand) bool {
	switch o.kind {
	case kNumber:
		return o.num != 0
	case kString:
		return o.str != ""
	case kBool:
		return o.b
	case kArray:
		return o.num != 0
	case kObject:
		return true
	}
	return false
}

// c03Equal is the statement's "=": by value for numbers, strings, booleans, structurally for
// arrays/objects; null equals null and a function equals itself.
func c03Equal(x, y c03Operand) bool {
	if x.kind != y.kind {
		return false
	}
	switch x.kind {
	case kNumber, kArray, kObject:
		return x.num == y.num
	case kString:
		return x.str == y.str
	case kBool:
		return x.b == y.b
	case kNull, kFunc:
		return true
	}
	return false
}

type c03Want struct {
	kind  int
	val   interface{}
	etype ErrType
}

func c03Arith(op string, x, y c03Operand) c03Want {
	if x.kind != kMissing && x.kind != kNumber {
		return c03Want{kind: oEvalError, etype: ErrNonNumberLHS}
	}
	if y.kind != kMissing && y.kind != kNumber {
		return c03Want{kind: oEvalError, etype: ErrNonNumberRHS}
	}
	if x.kind == kMissing || y.kind == kMissing {
		return c03Want{kind: oUndefined}
	}
	var r float64
	switch op {
	case "+":
		r = x.num + y.num
	case "-":
		r = x.num - y.num
	case "*":
		r = x.num * y.num
	case "/":
		r = x.num / y.num
	case "%":
		r = math.Mod(x.num, y.num)
	}
	if math.IsInf(r, 0) {
		return c03Want{kind: oEvalError, etype: ErrNumberInf}
	}
	if math.IsNaN(r) {
		return c03Want{kind: oEvalError, etype: ErrNumberNaN}
	}
	return c03Want{kind: oValue, val: r}
}

func c03Order(op string, x, y c03Operand) c03Want {
	xc := x.kind == kNumber || x.kind == kString
	yc := y.kind == kNumber || y.kind == kString
	if x.kind != kMissing && !xc {
		return c03Want{kind: oEvalError, etype: ErrNonComparableLHS}
	}
	if y.kind != kMissing && !yc {
		return c03Want{kind: oEvalError, etype: ErrNonComparableRHS}
	}
	if x.kind != kMissing && y.kind != kMissing && x.kind != y.kind {
		return c03Want{kind: oEvalError, etype: ErrTypeMismatch}
	}
	if x.kind == kMissing || y.kind == kMissing {
		return c03Want{kind: oValue, val: false}
	}
	var lt, eq bool
	if x.kind == kNumber {
		lt, eq = x.num < y.num, x.num == y.num
	} else {
		lt, eq = x.str < y.str, x.str == y.str
	}
	var b bool
	switch op {
	case "<":
		b = lt
	case "<=":
		b = lt || eq
	case ">":
		b = !lt && !eq
	case ">=":
		b = !lt
	}
	return c03Want{kind: oValue, val: b}
}

var c03Ops = []string{"+", "-", "*", "/", "%", "=", "!=", "<", "<=", ">", ">=", "in", "and", "or", "&", "..", "?:", "?:2", "neg"}

// VerifH_C03_Op: every operator on every pair of operand kinds (members with symbolic leaves and
// literals), compared with the table written from the statement.
func VerifH_C03_Op() {
	opi := verifChoose(len(c03Ops))
	op := c03Ops[opi]
	kx := verifChoose(kNumKinds)
	ky := 0
	if op != "neg" {
		ky = verifChoose(kNumKinds)
	}
	lit := verifChoose(2) == 1
	doc := map[string]interface{}{}
	// "&" needs numerals (number formatting is the library's) and ".." builds its list only from
	// concrete bounds; the range guards are checked on symbolic doubles separately
	concreteNum := op == "&"
	if op == ".." && !lit {
		concreteNum = verifChoose(2) == 1
	}
	x := c03MakeOperand("x", kx, lit, doc, concreteNum)
	y := c03MakeOperand("y", ky, lit, doc, concreteNum)
	if op == ".." && !lit && !concreteNum && kx == kNumber && ky == kNumber {
		// symbolic bounds: everything except the list-building case
		verifAssume(!(c03IsInt(x.num) && c03IsInt(y.num) && x.num <= y.num && y.num-x.num < 10000000))
	}
	var expr string
	var want c03Want
	switch op {
	case "+", "-", "*", "/", "%":
		expr = x.text + " " + op + " " + y.text
		want = c03Arith(op, x, y)
	case "neg":
		expr = "-(" + x.text + ")"
		switch x.kind {
		case kMissing:
			want = c03Want{kind: oUndefined}
		case kNumber:
			want = c03Want{kind: oValue, val: -x.num}
		default:
			want = c03Want{kind: oEvalError, etype: ErrNonNumberRHS}
		}
	case "=", "!=":
		expr = x.text + " " + op + " " + y.text
		if x.kind == kMissing || y.kind == kMissing {
			want = c03Want{kind: oValue, val: false}
		} else {
			want = c03Want{kind: oValue, val: c03Equal(x, y) == (op == "=")}
		}
	case "<", "<=", ">", ">=":
		expr = x.text + " " + op + " " + y.text
		want = c03Order(op, x, y)
	case "in":
		expr = x.text + " in " + y.text
		switch {
		case x.kind == kMissing || y.kind == kMissing:
			want = c03Want{kind: oValue, val: false}
		case y.kind == kArray:
			want = c03Want{kind: oValue, val: x.kind == kNumber && x.num == y.num}
		default:
			want = c03Want{kind: oValue, val: c03Equal(x, y)}
		}
	case "and":
		expr = x.text + " and " + y.text
		want = c03Want{kind: oValue, val: c03Truthy(x) && c03Truthy(y)}
	case "or":
		expr = x.text + " or " + y.text
		want = c03Want{kind: oValue, val: c03Truthy(x) || c03Truthy(y)}
	case "&":
		expr = x.text + " & " + y.text
		want = c03Want{kind: oValue, val: c03Str(x) + c03Str(y)}
	case "..":
		expr = "[" + x.text + ".." + y.text + "]"
		want = c03Range(x, y)
	case "?:":
		// the else-branch must not be evaluated when the condition is truthy (it would be an error)
		expr = x.text + ` ? ` + y.text + ` : (1 + "a")`
		if c03Truthy(x) {
			want = c03ValueOf(y)
		} else {
			want = c03Want{kind: oEvalError, etype: ErrNonNumberRHS}
		}
	case "?:2":
		expr = x.text + ` ? (1 + "a") : ` + y.text
		if c03Truthy(x) {
			want = c03Want{kind: oEvalError, etype: ErrNonNumberRHS}
		} else {
			want = c03ValueOf(y)
		}
	}
	got := hEval(expr, doc)
	verifNote(expr)
	verifAssert(got.kind == want.kind, "c03-outcome-kind:"+op)
	if got.kind != want.kind {
		return
	}
	switch want.kind {
	case oEvalError:
		verifAssert(got.etype == want.etype, "c03-error-kind:"+op)
	case oValue:
		if want.val == nil {
			return // function / null results are not compared by value
		}
		verifAssert(reflect.DeepEqual(got.val, want.val), "c03-value:"+op)
		// IEEE-754 results carry the sign of zero (the exact operators only; % goes through fmod)
		if wf, ok := want.val.(float64); ok && wf == 0 && (op == "neg" || op == "+" || op == "-" || op == "*" || op == "/") {
			if gf, ok := got.val.(float64); ok {
				verifAssert(math.Signbit(gf) == math.Signbit(wf), "c03-sign-of-zero:"+op)
			}
		}
	}
}

func c03ValueOf(o c03Operand) c03Want {
	switch o.kind {
	case kMissing:
		return c03Want{kind: oUndefined}
	case kNull, kFunc:
		return c03Want{kind: oValue, val: nil}
	}
	return c03Want{kind: oValue, val: o.val}
}

var c03NumText = map[float64]string{0: "0", 1.5: "1.5", -3: "-3", 100: "100", 1e21: "1e+21", 0.1: "0.1", 2: "2", 1: "1"}

func c03Str(o c03Operand) string {
	switch o.kind {
	case kNumber:
		return c03NumText[o.num]
	case kString:
		return o.str
	case kBool:
		if o.b {
			return "true"
		}
		return "false"
	case kNull:
		return "null"
	case kArray:
		return "[" + c03NumText[o.num] + "]"
	case kObject:
		return `{"k":` + c03NumText[o.num] + "}"
	}
	return ""
}

func c03IsInt(f float64) bool { return f == math.Trunc(f) }

func c03Range(x, y c03Operand) c03Want {
	if x.kind != kMissing && !(x.kind == kNumber && c03IsInt(x.num)) {
		return c03Want{kind: oEvalError, etype: ErrNonIntegerLHS}
	}
	if y.kind != kMissing && !(y.kind == kNumber && c03IsInt(y.num)) {
		return c03Want{kind: oEvalError, etype: ErrNonIntegerRHS}
	}
	if x.kind == kMissing || y.kind == kMissing || x.num > y.num {
		return c03Want{kind: oValue, val: []interface{}{}}
	}
	d := y.num - x.num
	// bound: small ranges are built, everything else must hit the size guard
	verifAssume(d <= 3 || d >= 10000000)
	if d >= 10000000 {
		return c03Want{kind: oEvalError, etype: ErrMaxRangeItems}
	}
	out := []interface{}{}
	for i := 0; i <= int(d); i++ {
		out = append(out, x.num+float64(i))
	}
	return c03Want{kind: oValue, val: out}
}
