//go:build verif

package jsonata

import (
	"math"
	"reflect"
)

// ---------------------------------------------------------------------------------------------
// C01 — paths map over sequences, flatten one level, normalise.
// C02 — predicates filter by truth value or select by position, per context item.
// Reference evaluator written from the statements, on plain JSON values (no reflect).
// ---------------------------------------------------------------------------------------------

type rUndefT struct{}

var rUndef = rUndefT{}

func rIsUndef(v interface{}) bool { _, ok := v.(rUndefT); return ok }
func rIsArr(v interface{}) bool   { _, ok := v.([]interface{}); return ok }

// step kinds
const (
	sName = iota
	sCtx   // $
	sRoot  // $$
	sVar   // $v
	sWild  // *
	sDesc  // **
	sParen // (sub-path)
	sArr   // [name]
	sObj   // {"k": name}
	sCount // $count(name)
)

type rPred struct {
	kind int // 0 number from root ($$.t), 1 comparison b > $$.t, 2 member b (truthiness), 3 literal string "s", 4 index array [0, $$.t], 5 missing member, 6 literal number
	lit  float64
}

type rStep struct {
	kind  int
	name  string
	sub   []rStep
	preds []rPred
	// nested: predicates attached by nesting (heads that are not field names)
	nested bool
}

type rEnv struct {
	root interface{}
	v    interface{}
	t    float64 // $t, the symbolic number used by predicates
}

// rNorm: a result list -> no value / the item / the list.
func rNorm(items []interface{}) interface{} {
	switch len(items) {
	case 0:
		return rUndef
	case 1:
		return items[0]
	}
	return items
}

func rName(name string, item interface{}) interface{} {
	switch x := item.(type) {
	case map[string]interface{}:
		v, ok := x[name]
		if !ok {
			return rUndef
		}
		return v
	case []interface{}:
		return rNorm(rNameList(name, x))
	}
	return rUndef
}

func rNameList(name string, arr []interface{}) []interface{} {
	var out []interface{}
	for _, e := range arr {
		if sub, ok := e.([]interface{}); ok {
			out = append(out, rNameList(name, sub)...) // an element that is an array recurses
			continue
		}
		if r := rName(name, e); !rIsUndef(r) {
			out = append(out, r)
		}
	}
	return out
}

func rFlattenAll(v interface{}, out []interface{}) []interface{} {
	if a, ok := v.([]interface{}); ok {
		for _, e := range a {
			out = rFlattenAll(e, out)
		}
		return out
	}
	return append(out, v)
}

func rChildren(v interface{}) []interface{} {
	switch x := v.(type) {
	case []interface{}:
		return x
	case map[string]interface{}:
		var out []interface{}
		for _, e := range x { // objects seen by * and ** have at most one member
			out = append(out, e)
		}
		return out
	}
	return nil
}

func rDesc(v interface{}, out []interface{}) []interface{} {
	if !rIsArr(v) {
		out = append(out, v)
	}
	for _, c := range rChildren(v) {
		out = rDesc(c, out)
	}
	return out
}

func rTruthy(v interface{}) bool {
	switch x := v.(type) {
	case rUndefT:
		return false
	case bool:
		return x
	case string:
		return x != ""
	case float64:
		return x != 0
	case int:
		return x != 0
	case []interface{}:
		for _, e := range x {
			if rTruthy(e) {
				return true
			}
		}
		return false
	case map[string]interface{}:
		return len(x) > 0
	}
	return false
}

func rArrayify(v interface{}) []interface{} {
	if rIsUndef(v) {
		return nil
	}
	if a, ok := v.([]interface{}); ok {
		return a
	}
	return []interface{}{v}
}

// rPredValue evaluates predicate p with item as context.
func rPredValue(p rPred, item interface{}, env *rEnv) interface{} {
	switch p.kind {
	case 0:
		return env.t
	case 1:
		b := rName("b", item)
		f, ok := b.(float64)
		if !ok {
			return false // comparison with a missing or non-number side: false (C03)
		}
		return f > env.t
	case 2:
		return rName("b", item)
	case 3:
		return "s"
	case 4:
		return []interface{}{0.0, env.t}
	case 5:
		return rUndef
	case 6:
		return -1.0
	case 7:
		return map[string]interface{}{"k": 1.0}
	case 8:
		b, ok := rName("b", item).(float64)
		id, _ := rName("id", item).(float64)
		return (ok && b > env.t) || id == 0
	case 9:
		// an array that does not consist only of numbers is cast to a boolean: true iff some member is
		id := rName("id", item)
		if rIsUndef(id) {
			return []interface{}{""}
		}
		return []interface{}{"", id}
	}
	return rUndef
}

func rApplyFilter(p rPred, items []interface{}, env *rEnv) []interface{} {
	var out []interface{}
	n := len(items)
	for i, item := range items {
		res := rPredValue(p, item, env)
		var idx []float64
		isIdx := false
		switch x := res.(type) {
		case float64:
			idx, isIdx = []float64{x}, true
		case []interface{}:
			isIdx = len(x) >= 0
			for _, e := range x {
				f, ok := e.(float64)
				if !ok {
					isIdx = false
					break
				}
				idx = append(idx, f)
			}
		}
		if isIdx {
			for _, f := range idx {
				k := math.Floor(f)
				if k < 0 {
					k += float64(n)
				}
				if k == float64(i) {
					out = append(out, item)
				}
			}
			continue
		}
		if rTruthy(res) {
			out = append(out, item)
		}
	}
	return out
}

// rApplyPreds: successive predicates filter the survivors of the previous one (as they are).
func rApplyPreds(v interface{}, preds []rPred, env *rEnv) interface{} {
	if rIsUndef(v) {
		return rUndef
	}
	items := rArrayify(v)
	for _, p := range preds {
		items = rApplyFilter(p, items, env)
		if len(items) == 0 {
			return rUndef
		}
	}
	if len(items) == 1 {
		return items[0]
	}
	return items
}

func rEvalStepNoPred(s rStep, item interface{}, env *rEnv) interface{} {
	switch s.kind {
	case sName:
		return rName(s.name, item)
	case sCtx:
		return item
	case sRoot:
		return env.root
	case sVar:
		return env.v
	case sWild:
		var out []interface{}
		for _, c := range rChildren(item) {
			out = rFlattenAll(c, out)
		}
		return rNorm(out)
	case sDesc:
		return rNorm(rDesc(item, nil))
	case sParen:
		return rPath(s.sub, false, item, env)
	case sArr:
		out := []interface{}{}
		r := rPath([]rStep{{kind: sName, name: s.name}}, false, item, env) // the inner name is itself a one-step path
		if !rIsUndef(r) {
			if a, ok := r.([]interface{}); ok {
				out = append(out, a...)
			} else {
				out = append(out, r)
			}
		}
		return out
	case sObj:
		m := map[string]interface{}{}
		r := rPath([]rStep{{kind: sName, name: s.name}}, false, item, env) // the inner name is itself a one-step path
		if !rIsUndef(r) {
			m["k"] = r
		}
		return m
	case sCount:
		var r interface{} = item
		if s.name != "$" {
			r = rPath([]rStep{{kind: sName, name: s.name}}, false, item, env) // the inner name is itself a one-step path
		}
		switch x := r.(type) {
		case rUndefT:
			return 0
		case []interface{}:
			return len(x)
		}
		return 1
	}
	return rUndef
}

func rEvalStep(s rStep, item interface{}, env *rEnv) interface{} {
	if len(s.preds) == 0 {
		return rEvalStepNoPred(s, item, env)
	}
	if !s.nested {
		return rApplyPreds(rEvalStepNoPred(s, item, env), s.preds, env)
	}
	// nested predicates: after each one a lone survivor is unwrapped before the next applies
	v := rEvalStepNoPred(s, item, env)
	for _, p := range s.preds {
		v = rApplyPreds(v, []rPred{p}, env)
	}
	return v
}

// rPath evaluates a path with ctx as context.
func rPath(steps []rStep, keep bool, ctx interface{}, env *rEnv) interface{} {
	if len(steps) == 0 {
		return rUndef
	}
	if len(steps) == 1 && steps[0].kind != sName && !keep {
		// a lone step that is not a field name is not a path: it is evaluated on the context directly
		r := rEvalStep(steps[0], ctx, env)
		return r
	}
	anchored := steps[0].kind == sCtx || steps[0].kind == sRoot || steps[0].kind == sVar
	var seq []interface{}
	if arr, ok := ctx.([]interface{}); ok && !anchored {
		seq = arr
	} else if !rIsUndef(ctx) {
		seq = []interface{}{ctx}
	}
	for i, s := range steps {
		last := i == len(steps)-1
		var results []interface{}
		if s.kind == sArr && i == 0 && len(s.preds) == 0 {
			// a leading array constructor is evaluated on the context as a whole
			res := rEvalStepNoPred(s, interface{}(seq), env).([]interface{})
			if len(res) == 0 {
				return rUndef
			}
			seq = res
			continue
		}
		for _, item := range seq {
			if r := rEvalStep(s, item, env); !rIsUndef(r) {
				results = append(results, r)
			}
		}
		if last && len(results) == 1 && rIsArr(results[0]) {
			if len(results[0].([]interface{})) == 0 {
				return rUndef
			}
			return results[0]
		}
		seq = nil
		for _, r := range results {
			if a, ok := r.([]interface{}); ok && !(s.kind == sArr && len(s.preds) == 0) {
				seq = append(seq, a...)
			} else {
				seq = append(seq, r)
			}
		}
		if len(seq) == 0 {
			return rUndef
		}
	}
	if len(seq) == 1 && !keep {
		return seq[0]
	}
	return seq
}

// ---- expression text ----

func rPredText(p rPred) string {
	switch p.kind {
	case 0:
		return "[$t]"
	case 1:
		return "[b > $t]"
	case 2:
		return "[b]"
	case 3:
		return `["s"]`
	case 4:
		return "[[0, $t]]"
	case 5:
		return "[nope]"
	case 6:
		return "[-1]"
	case 7:
		return `[{"k": 1}]`
	case 8:
		return "[b > $t or id = 0]"
	case 9:
		return `[["", id]]`
	}
	return ""
}

func rStepText(s rStep) string {
	var t string
	switch s.kind {
	case sName:
		t = s.name
	case sCtx:
		t = "$"
	case sRoot:
		t = "$$"
	case sVar:
		t = "$v"
	case sWild:
		t = "*"
	case sDesc:
		t = "**"
	case sParen:
		t = "(" + rPathText(s.sub, false) + ")"
	case sArr:
		t = "[" + s.name + "]"
	case sObj:
		t = `{"k": ` + s.name + `}`
	case sCount:
		t = "$count(" + s.name + ")"
	}
	for _, p := range s.preds {
		t += rPredText(p)
	}
	return t
}

func rPathText(steps []rStep, keep bool) string {
	t := ""
	for i, s := range steps {
		if i > 0 {
			t += "."
		}
		t += rStepText(s)
	}
	if keep {
		t += "[]"
	}
	return t
}

// ---- documents ----

// rGenValue generates a null-free JSON value over keys {a,b} with symbolic number leaves, at most
// depth levels deep, arrays of at most w members (including arrays directly inside arrays), at
// most *budget containers in total.
func rGenValue(depth, w int, oneMember bool, budget *int) interface{} {
	if *budget <= 0 || depth == 0 {
		return hFinite()
	}
	kinds := 5
	if oneMember {
		kinds = 4
	}
	k := verifChoose(kinds)
	if k == 0 {
		return hFinite()
	}
	*budget--
	switch k {
	case 1:
		return map[string]interface{}{"a": rGenValue(depth-1, w, oneMember, budget)}
	case 2:
		return map[string]interface{}{"b": rGenValue(depth-1, w, oneMember, budget)}
	case 3:
		n := verifChoose(w + 1)
		arr := make([]interface{}, n)
		for i := range arr {
			arr[i] = rGenValue(depth-1, w, oneMember, budget)
		}
		return arr
	}
	return map[string]interface{}{"a": rGenValue(depth-1, w, oneMember, budget), "b": rGenValue(depth-1, w, oneMember, budget)}
}

func rCompare(got hOutcome, want interface{}, id string) {
	if rIsUndef(want) {
		verifAssert(got.kind == oUndefined, id+"-no-value")
		return
	}
	verifAssert(got.kind == oValue, id+"-has-value")
	if got.kind == oValue {
		verifAssert(reflect.DeepEqual(got.val, want), id)
	}
}

var rStepMenu = []rStep{
	{kind: sName, name: "a"}, {kind: sName, name: "b"}, {kind: sCtx}, {kind: sRoot}, {kind: sVar}, {kind: sWild}, {kind: sDesc},
	{kind: sParen, sub: []rStep{{kind: sName, name: "a"}, {kind: sName, name: "b"}}}, {kind: sArr, name: "a"}, {kind: sObj, name: "a"}, {kind: sCount, name: "a"},
}

// VerifH_C01_Paths: every path of 1..K steps over the step alphabet, with and without [], on every
// null-free document within the shape bound, against the reference evaluator.
func VerifH_C01_Paths() { c01Paths(verifParam("K", 2)) }

// VerifH_C01_Wide: the same with fewer steps on larger documents (its own parameter set).
func VerifH_C01_Wide() { c01Paths(verifParam("K", 2)) }

func c01Paths(maxSteps int) {
	k := 1 + verifChoose(maxSteps)
	steps := make([]rStep, k)
	wild := false
	for i := range steps {
		menu := rStepMenu
		if i > 0 {
			// $$ and variables appear in first position only ($ in a later position is the context item)
			menu = []rStep{rStepMenu[0], rStepMenu[1], rStepMenu[2], rStepMenu[5], rStepMenu[6], rStepMenu[7], rStepMenu[8], rStepMenu[9], rStepMenu[10]}
		}
		steps[i] = menu[verifChoose(len(menu))]
		if steps[i].kind == sWild || steps[i].kind == sDesc {
			wild = true
		}
	}
	c01Check(steps, wild)
}

// VerifH_C01_Mid: three-step paths whose middle step is a constructor, a parenthesised sub-path or a
// function call (steps whose array results are units or are flattened differently from names).
func VerifH_C01_Mid() {
	first := []rStep{rStepMenu[0], rStepMenu[1], rStepMenu[2], rStepMenu[4]}
	mid := []rStep{rStepMenu[7], rStepMenu[8], rStepMenu[9], rStepMenu[10]}
	last := []rStep{rStepMenu[0], rStepMenu[1], rStepMenu[2], rStepMenu[5], rStepMenu[6], rStepMenu[8], rStepMenu[10], {kind: sCount, name: "$"}}
	steps := []rStep{first[verifChoose(len(first))], mid[verifChoose(len(mid))], last[verifChoose(len(last))]}
	c01Check(steps, steps[2].kind == sWild || steps[2].kind == sDesc)
}

func c01Check(steps []rStep, wild bool) {
	keep := verifBool()
	budget := verifParam("NODES", 5)
	doc := rGenValue(verifParam("DEPTH", 3), verifParam("W", 2), wild, &budget)
	var v interface{} = 0.0
	if steps[0].kind == sVar {
		b2 := 2
		v = rGenValue(2, 2, wild, &b2)
	}
	text := rPathText(steps, keep)
	verifNote(text)
	e, err := Compile(text)
	if err != nil {
		verifFail("c01-path-compiles")
		return
	}
	_ = e.RegisterVars(map[string]interface{}{"v": v})
	got := hEvalExpr(e, doc)
	want := rPath(steps, keep, doc, &rEnv{root: doc, v: v})
	rCompare(got, want, "path-result")
}

// VerifH_C02_Predicates: e[p] for every head kind and predicate kind, the position a symbolic
// double, on arrays of 0..5 members; step-local vs whole-path; stacked predicates.
func VerifH_C02_Predicates() {
	c02Body(verifParam("LEN", 4), 1, verifParam("PK", 9))
}

// VerifH_C02_Stacked: the same with 1..P successive predicates (on field-name steps the survivors are
// filtered as they are; on other heads a lone array-valued survivor is unwrapped first).
func VerifH_C02_Stacked() {
	c02Body(verifParam("LEN", 2), verifParam("P", 2), verifParam("PK", 6))
}

// VerifH_C02_ArrayItems: predicates (single and stacked) over items that are themselves arrays: on a
// field-name step the survivors are filtered as they are, on other heads a lone array-valued survivor
// is unwrapped before the next predicate.
func VerifH_C02_ArrayItems() {
	c02BodyX(verifParam("LEN", 2), verifParam("P", 2), 0, true)
}

func c02Body(maxLen, maxP, pk int) { c02BodyX(maxLen, maxP, pk, false) }

func c02BodyX(maxLen, maxP, pk int, arrayItems bool) {
	t := hFinite()
	n := verifChoose(maxLen + 1)
	arr := make([]interface{}, n)
	miss := n
	if !arrayItems {
		miss = verifChoose(n + 1) // the member that lacks b (n: none)
	}
	for i := range arr {
		if arrayItems {
			m := verifChoose(3)
			sub := make([]interface{}, m)
			for k := range sub {
				sub[k] = float64(10*i + k)
			}
			arr[i] = sub
			continue
		}
		m := map[string]interface{}{"id": float64(i)}
		if i != miss {
			m["b"] = hFinite()
		}
		arr[i] = m
	}
	var x interface{} = arr
	doc := map[string]interface{}{"x": x, "y": map[string]interface{}{"x": arr}, "z": []interface{}{map[string]interface{}{"x": arr}, map[string]interface{}{"x": arr}}}
	np := 1 + verifChoose(maxP)
	preds := make([]rPred, np)
	for i := range preds {
		if arrayItems {
			preds[i] = rPred{kind: []int{0, 4, 6, 3, 5}[verifChoose(5)]}
		} else {
			preds[i] = rPred{kind: verifChoose(pk)}
		}
	}
	var steps []rStep
	head := verifChoose(7)
	switch head {
	case 6: // the predicate's step is the first step and the input is an array: applied per member
		steps = []rStep{{kind: sName, name: "x", preds: preds}}
	case 0: // field step
		steps = []rStep{{kind: sName, name: "x", preds: preds}}
	case 1: // predicate belongs to its step inside a path (applied per context item)
		steps = []rStep{{kind: sName, name: "z"}, {kind: sName, name: "x", preds: preds}}
	case 2: // (path)[p] applies to the whole result
		steps = []rStep{{kind: sParen, sub: []rStep{{kind: sName, name: "z"}, {kind: sName, name: "x"}}, preds: preds, nested: true}}
	case 3: // variable head: nested predicates
		steps = []rStep{{kind: sVar, preds: preds, nested: true}}
	case 4: // root head
		steps = []rStep{{kind: sRoot}, {kind: sName, name: "y"}, {kind: sName, name: "x", preds: preds}}
	case 5: // context head on an array input
		steps = []rStep{{kind: sCtx, preds: preds, nested: true}}
	}
	text := rPathText(steps, false)
	verifNote(text)
	e, err := Compile(text)
	if err != nil {
		verifFail("c02-expression-compiles")
		return
	}
	_ = e.RegisterVars(map[string]interface{}{"v": x, "t": t})
	var input interface{} = doc
	if steps[0].kind == sCtx {
		input = x
	}
	if head == 6 {
		input = doc["z"]
	}
	env := &rEnv{root: input, v: x, t: t}
	got := hEvalExpr(e, input)
	want := rPath(steps, false, input, env)
	rCompare(got, want, "predicate-result")
}
