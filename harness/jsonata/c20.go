//go:build verif

package jsonata

import (
	"errors"
	"reflect"

	"github.com/blues/jsonata-go/jtypes"
)

// ---------------------------------------------------------------------------------------------
// C20 — extensions: faithful argument passing, typed failures, registry visibility.
// ---------------------------------------------------------------------------------------------

var c20Err = errors.New("extension failed")

func c20Float(x float64) float64         { return x }
func c20Int(x int) int                   { return x }
func c20Uint8(x uint8) uint8             { return x }
func c20String(s string) string          { return s }
func c20Bytes(b []byte) string           { return string(b) }
func c20Bool(b bool) bool                { return b }
func c20Any(x interface{}) interface{}   { return x }
func c20Value(v reflect.Value) bool      { return v.IsValid() }
func c20Slice(a []interface{}) int       { return len(a) }
func c20Map(m map[string]interface{}) int { return len(m) }
func c20Callable(c jtypes.Callable) string { return c.Name() }
func c20Opt(x float64, o jtypes.OptionalString) string {
	if !o.IsSet() {
		return "unset"
	}
	return "set:" + o.String
}
func c20Variadic(x float64, rest ...float64) []interface{} {
	out := []interface{}{x}
	for _, r := range rest {
		out = append(out, r)
	}
	return out
}
func c20Fails(x float64) (float64, error) {
	if x < 0 {
		return 0, c20Err
	}
	return x, nil
}
func c20Undefined(x float64) (float64, error) { return 0, jtypes.ErrUndefined }
func c20Two(s string, n float64) []interface{} { return []interface{}{s, n} }

type c20Fn struct {
	name string
	fn   interface{}
	np   int  // parameters
	opt  int  // trailing optional parameters
	varg bool // variadic tail
}

var c20Fns = []c20Fn{
	{"float", c20Float, 1, 0, false}, {"int", c20Int, 1, 0, false}, {"uint8", c20Uint8, 1, 0, false}, {"string", c20String, 1, 0, false}, {"bytes", c20Bytes, 1, 0, false},
	{"bool", c20Bool, 1, 0, false}, {"any", c20Any, 1, 0, false}, {"value", c20Value, 1, 0, false}, {"slice", c20Slice, 1, 0, false}, {"map", c20Map, 1, 0, false},
	{"callable", c20Callable, 1, 0, false}, {"opt", c20Opt, 2, 1, false}, {"variadic", c20Variadic, 2, 0, true}, {"fails", c20Fails, 1, 0, false}, {"undef", c20Undefined, 1, 0, false},
	{"two", c20Two, 2, 0, false},
}

// argument kinds: missing, number, string, boolean, array, object, function
const (
	gMissing = iota
	gNumber
	gString
	gBool
	gArray
	gObject
	gFunc
	gKinds
)

type c20Arg struct {
	kind int
	text string
	num  float64
	str  string
	b    bool
}

func c20MakeArg(i int, doc map[string]interface{}) c20Arg {
	name := []string{"p", "q", "r"}[i]
	a := c20Arg{kind: verifChoose(gKinds), text: name}
	switch a.kind {
	case gMissing:
		a.text = "nothing"
	case gNumber:
		a.num = hFinite()
		// conversions to integer kinds are defined for values in range
		verifAssume(a.num > -1e9 && a.num < 1e9)
		doc[name] = a.num
	case gString:
		a.str = hSafeString(2)
		doc[name] = a.str
	case gBool:
		a.b = verifBool()
		doc[name] = a.b
	case gArray:
		doc[name] = []interface{}{1.0, "x"}
	case gObject:
		doc[name] = map[string]interface{}{"k": 1.0}
	case gFunc:
		a.text = "$sum"
	}
	return a
}

// c20Accepts: does parameter (by function name / position) accept the argument kind?
func c20Accepts(fn string, pos int, k int) bool {
	switch fn {
	case "float", "int", "uint8", "fails", "undef":
		return k == gNumber
	case "string", "bytes":
		return k == gString
	case "bool":
		return k == gBool
	case "any", "value":
		return true
	case "slice":
		return k == gArray
	case "map":
		return k == gObject
	case "callable":
		return k == gFunc
	case "opt":
		if pos == 0 {
			return k == gNumber
		}
		return k == gString || k == gMissing
	case "variadic":
		return k == gNumber
	case "two":
		if pos == 0 {
			return k == gString
		}
		return k == gNumber
	}
	return false
}

// VerifH_C20_Conversion: JSONata arguments are converted to the Go parameter types as documented;
// a call whose count or types do not fit fails with ArgCountError / ArgTypeError naming the function
// and the position; an error result becomes Eval's error; jtypes.ErrUndefined becomes no value.
func VerifH_C20_Conversion() {
	f := c20Fns[verifChoose(len(c20Fns))]
	na := verifChoose(verifParam("A", 3) + 1)
	doc := map[string]interface{}{}
	args := make([]c20Arg, na)
	text := ""
	for i := range args {
		args[i] = c20MakeArg(i, doc)
		if i > 0 {
			text += ", "
		}
		text += args[i].text
	}
	expr := "$ext(" + text + ")"
	verifNote(f.name + ": " + expr)
	e, err := Compile(expr)
	if err != nil {
		verifFail("c20-expression-compiles")
		return
	}
	if err := e.RegisterExts(map[string]Extension{"ext": {Func: f.fn}}); err != nil {
		verifFail("c20-valid-extension-registers")
		return
	}
	got := hEvalExpr(e, doc)
	// ---- contract ----
	min, max := f.np-f.opt, f.np
	if f.varg {
		min, max = f.np-1, 1000
	}
	if na < min || na > max {
		verifAssert(got.kind == oArgCount, "ext-count-error")
		if ce, ok := got.err.(*ArgCountError); ok {
			verifAssert(ce.Func == "ext" && ce.Received == na, "ext-count-error-names-function")
		}
		return
	}
	for i, a := range args {
		pos := i
		if pos >= f.np {
			pos = f.np - 1
		}
		if !c20Accepts(f.name, pos, a.kind) {
			verifAssert(got.kind == oArgType, "ext-type-error")
			if te, ok := got.err.(*ArgTypeError); ok {
				verifAssert(te.Func == "ext" && te.Which == i+1, "ext-type-error-names-function-and-position")
			}
			return
		}
	}
	// the call fits: check what the function received
	switch f.name {
	case "float":
		verifAssert(got.kind == oValue && reflect.DeepEqual(got.val, args[0].num), "ext-float")
	case "int":
		verifAssert(got.kind == oValue && reflect.DeepEqual(got.val, int(args[0].num)), "ext-int")
	case "uint8":
		verifAssert(got.kind == oValue && reflect.DeepEqual(got.val, uint8(args[0].num)), "ext-uint8")
	case "string", "bytes":
		verifAssert(got.kind == oValue && reflect.DeepEqual(got.val, args[0].str), "ext-string")
	case "bool":
		verifAssert(got.kind == oValue && reflect.DeepEqual(got.val, args[0].b), "ext-bool")
	case "any":
		switch args[0].kind {
		case gMissing:
			verifAssert(got.kind == oValue && got.val == nil || got.kind == oUndefined, "ext-any-missing")
		case gNumber:
			verifAssert(got.kind == oValue && reflect.DeepEqual(got.val, args[0].num), "ext-any-number")
		case gString:
			verifAssert(got.kind == oValue && reflect.DeepEqual(got.val, args[0].str), "ext-any-string")
		default:
			verifAssert(got.kind == oValue, "ext-any")
		}
	case "value":
		verifAssert(got.kind == oValue && reflect.DeepEqual(got.val, args[0].kind != gMissing), "ext-value")
	case "slice":
		verifAssert(got.kind == oValue && reflect.DeepEqual(got.val, 2), "ext-slice")
	case "map":
		verifAssert(got.kind == oValue && reflect.DeepEqual(got.val, 1), "ext-map")
	case "callable":
		verifAssert(got.kind == oValue && reflect.DeepEqual(got.val, "sum"), "ext-callable")
	case "opt":
		want := "unset"
		if na == 2 && args[1].kind == gString {
			want = "set:" + args[1].str
		}
		verifAssert(got.kind == oValue && reflect.DeepEqual(got.val, want), "ext-optional")
	case "variadic":
		want := []interface{}{}
		for _, a := range args {
			want = append(want, a.num)
		}
		verifAssert(got.kind == oValue && reflect.DeepEqual(got.val, want), "ext-variadic-collects-surplus")
	case "fails":
		if args[0].num < 0 {
			verifAssert(got.kind == oOtherError && got.err == c20Err, "ext-error-result-becomes-eval-error")
		} else {
			verifAssert(got.kind == oValue && reflect.DeepEqual(got.val, args[0].num), "ext-ok-result")
		}
	case "undef":
		verifAssert(got.kind == oUndefined, "ext-errundefined-is-no-value")
	case "two":
		verifAssert(got.kind == oValue && reflect.DeepEqual(got.val, []interface{}{args[0].str, args[1].num}), "ext-two")
	}
}

// VerifH_C20_Handlers: UndefinedHandler turns the call into no value; EvalContextHandler prepends the
// context item.
func VerifH_C20_Handlers() {
	s := hSafeString(2)
	ctx := hSafeString(2)
	withUndef := verifBool()
	withCtx := verifBool()
	ext := Extension{Func: c20Two}
	if withUndef {
		ext.UndefinedHandler = func(argv []reflect.Value) bool { return len(argv) > 0 && !argv[0].IsValid() }
	}
	if withCtx {
		ext.EvalContextHandler = func(argv []reflect.Value) bool { return len(argv) == 1 }
	}
	doc := map[string]interface{}{"c": ctx, "s": s}
	mode := verifChoose(5)
	expr := []string{`c.$ext($$.s, 5)`, `c.$ext(5)`, `c.$ext(nothing, 5)`, `c.$ext(nothing)`, `nothing.$ext(5)`}[mode]
	e, err := Compile(expr)
	if err != nil {
		verifFail("c20-expression-compiles")
		return
	}
	if err := e.RegisterExts(map[string]Extension{"ext": ext}); err != nil {
		verifFail("c20-valid-extension-registers")
		return
	}
	got := hEvalExpr(e, doc)
	switch mode {
	case 0:
		verifAssert(got.kind == oValue && reflect.DeepEqual(got.val, []interface{}{s, 5.0}), "handlers-plain-call")
	case 1:
		if withCtx {
			verifAssert(got.kind == oValue && reflect.DeepEqual(got.val, []interface{}{ctx, 5.0}), "context-handler-prepends-context")
		} else {
			verifAssert(got.kind == oArgCount, "no-context-handler-count-error")
		}
	case 2:
		if withUndef {
			verifAssert(got.kind == oUndefined, "undefined-handler-no-value")
		} else {
			verifAssert(got.kind == oArgType, "no-undefined-handler-type-error")
		}
	case 3:
		// one missing argument: the context handler (which fires on one argument) prepends the context
		// first, so the undefined handler sees the context item in first position
		switch {
		case withCtx:
			verifAssert(got.kind == oArgType, "both-handlers-context-first-then-type-error-on-second")
		case withUndef:
			verifAssert(got.kind == oUndefined, "undefined-handler-alone-no-value")
		default:
			verifAssert(got.kind == oArgCount, "no-handlers-count-error")
		}
	case 4:
		// a step applied to nothing is not evaluated at all
		verifAssert(got.kind == oUndefined, "call-step-on-missing-context-no-value")
	}
}

func c20VarStr(first string, rest ...float64) []interface{} {
	out := []interface{}{first}
	for _, r := range rest {
		out = append(out, r)
	}
	return out
}

// VerifH_C20_HandlersVariadic: the context handler sees the explicit arguments and, when it fires, the
// context item is counted as an argument by the count check, also for variadic extensions.
func VerifH_C20_HandlersVariadic() {
	ctx := hSafeString(2)
	fireAt := verifChoose(3) // the handler fires when exactly this many explicit arguments are given
	n := verifChoose(4)      // explicit numeric arguments
	ext := Extension{Func: c20VarStr, EvalContextHandler: func(argv []reflect.Value) bool { return len(argv) == fireAt }}
	expr := "c.$ext("
	want := []interface{}{ctx}
	for i := 0; i < n; i++ {
		if i > 0 {
			expr += ", "
		}
		expr += []string{"1", "2", "3"}[i]
		want = append(want, float64(i+1))
	}
	expr += ")"
	e, err := Compile(expr)
	if err != nil {
		verifFail("c20-expression-compiles")
		return
	}
	if err := e.RegisterExts(map[string]Extension{"ext": ext}); err != nil {
		verifFail("c20-valid-extension-registers")
		return
	}
	got := hEvalExpr(e, map[string]interface{}{"c": ctx})
	switch {
	case n == fireAt:
		verifAssert(got.kind == oValue && reflect.DeepEqual(got.val, want), "variadic-context-handler-prepends-context")
	case n == 0:
		verifAssert(got.kind == oArgCount, "variadic-missing-fixed-parameter-count-error")
	default:
		verifAssert(got.kind == oArgType, "variadic-number-for-string-type-error")
	}
}

// VerifH_C20_Registry: Expr-level registration affects only that Expr; package-level registration
// affects exactly the expressions compiled afterwards; invalid names and function shapes are rejected;
// registered variables are readable as $name.
func VerifH_C20_Registry() {
	f1 := func() string { return "one" }
	f2 := func() string { return "two" }
	switch verifChoose(6) {
	case 0: // package level: visible to expressions compiled afterwards only (a name no other case uses:
		// natively the replays of one batch share the process and so the package-level registry)
		gname := "gpkg" + string(rune('a'+verifRun()%26)) + string(rune('a'+verifRun()/26%26))
		before, _ := Compile("$" + gname + "()")
		if err := RegisterExts(map[string]Extension{gname: {Func: f1}}); err != nil {
			verifFail("registry-valid-registration")
			return
		}
		mid, _ := Compile("$" + gname + "()")
		if err := RegisterExts(map[string]Extension{gname: {Func: f2}}); err != nil {
			verifFail("registry-valid-registration")
			return
		}
		after, _ := Compile("$" + gname + "()")
		o0, o1, o2 := hEvalExpr(before, nil), hEvalExpr(mid, nil), hEvalExpr(after, nil)
		verifAssert(o0.kind == oEvalError && o0.etype == ErrNonCallable, "package-registration-not-retroactive")
		verifAssert(o1.kind == oValue && o1.val == "one", "package-registration-visible-to-later-compile")
		verifAssert(o2.kind == oValue && o2.val == "two", "package-re-registration-visible-to-later-compile")
		verifAssert(hEvalExpr(mid, nil).val == "one", "earlier-expression-keeps-its-binding")
	case 1: // Expr level: only that Expr
		e1, _ := Compile(`$g()`)
		e2, _ := Compile(`$g()`)
		_ = e1.RegisterExts(map[string]Extension{"g": {Func: f1}})
		o1, o2 := hEvalExpr(e1, nil), hEvalExpr(e2, nil)
		verifAssert(o1.kind == oValue && o1.val == "one", "expr-registration-visible")
		verifAssert(o2.kind == oEvalError && o2.etype == ErrNonCallable, "expr-registration-does-not-leak")
		_ = e2.RegisterExts(map[string]Extension{"g": {Func: f2}})
		verifAssert(hEvalExpr(e1, nil).val == "one" && hEvalExpr(e2, nil).val == "two", "same-name-different-extensions-alternately")
	case 2: // variables
		x := hFinite()
		e, _ := Compile(`$v`)
		_ = e.RegisterVars(map[string]interface{}{"v": x})
		o := hEvalExpr(e, nil)
		verifAssert(o.kind == oValue && reflect.DeepEqual(o.val, x), "registered-variable-readable")
		e2, _ := Compile(`$v`)
		verifAssert(hEvalExpr(e2, nil).kind == oUndefined, "expr-variable-does-not-leak")
	case 3: // invalid names
		name := verifString(verifParam("N", 3))
		valid := len(name) > 0
		for i := 0; i < len(name); i++ {
			c := name[i]
			verifAssume(c < 0x80)
			if !(c >= 'a' && c <= 'z' || c >= 'A' && c <= 'Z' || c >= '0' && c <= '9' || c == '_') {
				valid = false
			}
		}
		e, _ := Compile(`1`)
		err := e.RegisterExts(map[string]Extension{name: {Func: f1}})
		verifAssert((err == nil) == valid, "extension-name-accepted-iff-valid")
		err = e.RegisterVars(map[string]interface{}{name: 1.0})
		verifAssert((err == nil) == valid, "variable-name-accepted-iff-valid")
	case 4: // invalid function shapes
		e, _ := Compile(`1`)
		bad := []interface{}{5, "f", func() {}, func() (int, int) { return 0, 0 }, func() (int, int, error) { return 0, 0, nil }, nil}
		b := bad[verifChoose(len(bad))]
		verifAssert(e.RegisterExts(map[string]Extension{"g": {Func: b}}) != nil, "invalid-function-shape-rejected")
	case 5: // valid shapes
		e, _ := Compile(`1`)
		ok := []interface{}{func() int { return 0 }, func(a, b int) (int, error) { return 0, nil }, c20Variadic}
		g := ok[verifChoose(len(ok))]
		verifAssert(e.RegisterExts(map[string]Extension{"g": {Func: g}}) == nil, "valid-function-shape-accepted")
	}
}
