//go:build verif

package jsonata

import (
	"reflect"
	"regexp"
)

// ---------------------------------------------------------------------------------------------
// C17 — regex functions agree with the engine (the engine's RESULT is symbolic: an arbitrary
// well-formed match list, see the regexp stub; parameter STUBREGEX=1).
// ---------------------------------------------------------------------------------------------

type c17Match struct {
	a, b   int
	groups [][2]int
}

// c17Engine asks the (stubbed) engine for the matches of re in s; the stub memoises the answer per
// (regexp, subject), so this is the same answer the code under check receives.
func c17Engine(re *regexp.Regexp, s string) []c17Match {
	var out []c17Match
	for _, ix := range re.FindAllStringSubmatchIndex(s, -1) {
		m := c17Match{a: ix[0], b: ix[1]}
		for g := 2; g+1 < len(ix); g += 2 {
			m.groups = append(m.groups, [2]int{ix[g], ix[g+1]})
		}
		out = append(out, m)
	}
	return out
}

var c17Re = regexp.MustCompile(`(b)(c)?`)

var c17Subjects = []string{"", "a", "ab", "abc", "abcb", "abcbd"}

// VerifH_C17_Glue: $match, $contains, $split, $replace and the application of a regex literal, checked
// against the engine's (symbolic) match list.
func VerifH_C17_Glue() {
	c17Glue("(b)(c)?", c17Re, c17Subjects[verifParam("L", 3)])
}

var c17Patterns = []string{"x*", "a*", "^", "x?", "(b)(c)?", "b|", "$", "(a)|(b)", "a+?", "(?i)A", "[ab]", "(a(b)?)+"}
var c17Regexps = func() []*regexp.Regexp {
	var out []*regexp.Regexp
	for _, p := range c17Patterns {
		out = append(out, regexp.MustCompile(p))
	}
	return out
}()

// VerifH_C17_GlueConcrete: the same comparisons with the real engine on concrete inputs: a menu of
// patterns that produce empty matches, matches at both ends, adjacent matches and non-participating
// groups, on every subject of <= N characters over {a, b, x} (enumerated: the engine is run, not
// encoded). Complements VerifH_C17_Glue, whose counterexamples need not be realisable by a pattern.
func VerifH_C17_GlueConcrete() {
	pi := verifChoose(len(c17Patterns))
	n := verifChoose(verifParam("N", 3) + 1)
	b := make([]byte, n)
	for i := range b {
		b[i] = "abx"[verifChoose(3)]
	}
	c17Glue(c17Patterns[pi], c17Regexps[pi], string(b))
}

func c17Glue(pat string, re *regexp.Regexp, s string) {
	ms := c17Engine(re, s)
	doc := map[string]interface{}{"s": s}
	grp := func(m c17Match) []string {
		// groups that did not participate are empty strings
		var gs []string
		for _, g := range m.groups {
			if g[0] < 0 {
				gs = append(gs, "")
			} else {
				gs = append(gs, s[g[0]:g[1]])
			}
		}
		return gs
	}
	switch verifChoose(8) {
	case 0: // $contains
		got := hEval("$contains(s, /"+pat+"/)", doc)
		verifAssert(got.kind == oValue && reflect.DeepEqual(got.val, len(ms) > 0), "contains-iff-a-match")
	case 1: // $match: all matches in order with text, offset, groups
		got := hEval("$match(s, /"+pat+"/)", doc)
		if len(ms) == 0 {
			verifAssert(got.kind == oUndefined || got.kind == oValue, "match-none")
			return
		}
		verifAssert(got.kind == oValue, "match-evaluates")
		var list []map[string]interface{}
		switch x := got.val.(type) {
		case []map[string]interface{}:
			list = x
		case map[string]interface{}:
			list = []map[string]interface{}{x}
		}
		verifAssert(len(list) == len(ms), "match-count")
		if len(list) != len(ms) {
			return
		}
		for i, m := range ms {
			verifAssert(reflect.DeepEqual(list[i]["match"], s[m.a:m.b]), "match-text")
			verifAssert(reflect.DeepEqual(list[i]["index"], m.a), "match-offset")
			if want := grp(m); len(want) == 0 {
				gv := reflect.ValueOf(list[i]["groups"])
				verifAssert(gv.IsValid() && gv.Kind() == reflect.Slice && gv.Len() == 0, "match-groups")
			} else {
				verifAssert(reflect.DeepEqual(list[i]["groups"], want), "match-groups")
			}
		}
	case 2: // $match with a limit
		lim := verifChoose(4)
		got := hEval("$match(s, /"+pat+"/, "+[]string{"0", "1", "2", "3"}[lim]+`)`, doc)
		want := len(ms)
		if lim < want {
			want = lim
		}
		n := 0
		if got.kind == oValue {
			switch x := got.val.(type) {
			case []map[string]interface{}:
				n = len(x)
			case map[string]interface{}:
				n = 1
			}
		}
		verifAssert(n == want, "match-limit")
	case 3: // negative limit is an error
		got := hEval("$match(s, /"+pat+"/, -1)", doc)
		verifAssert(got.kind == oOtherError, "match-negative-limit-error")
	case 4: // $split: the text between consecutive matches
		got := hEval("$split(s, /"+pat+"/)", doc)
		var want []string
		pos := 0
		for _, m := range ms {
			want = append(want, s[pos:m.a])
			pos = m.b
		}
		want = append(want, s[pos:])
		verifAssert(got.kind == oValue && reflect.DeepEqual(got.val, want), "split-between-matches")
	case 5: // $replace with a template
		got := hEval("$replace(s, /"+pat+`/, "<$0|$1|$2|$3>")`, doc)
		want := ""
		pos := 0
		for _, m := range ms {
			gs := append(grp(m), "", "") // a group the pattern does not have is empty
			want += s[pos:m.a] + "<" + s[m.a:m.b] + "|" + gs[0] + "|" + gs[1] + "|" + ">"
			pos = m.b
		}
		want += s[pos:]
		verifAssert(got.kind == oValue && reflect.DeepEqual(got.val, want), "replace-substitutes-each-match")
	case 6: // $replace with a limit and a function
		got := hEval("$replace(s, /"+pat+`/, function($m){"[" & $m.match & ($m.index = 0 ? "@0" : "@n") & "]"}, 1)`, doc)
		want := s
		if len(ms) > 0 {
			m := ms[0]
			at := "@n"
			if m.a == 0 {
				at = "@0"
			}
			want = s[:m.a] + "[" + s[m.a:m.b] + at + "]" + s[m.b:]
		}
		verifAssert(got.kind == oValue && reflect.DeepEqual(got.val, want), "replace-function-once-per-match-up-to-limit")
	case 7: // applying the literal: first match, next enumerates the rest, then no value
		got := hEval("(/"+pat+"/)(s)", doc)
		if len(ms) == 0 {
			verifAssert(got.kind == oUndefined, "apply-no-match")
			return
		}
		verifAssert(got.kind == oValue, "apply-evaluates")
		first, ok := got.val.(map[string]interface{})
		verifAssert(ok && reflect.DeepEqual(first["match"], s[ms[0].a:ms[0].b]) && reflect.DeepEqual(first["start"], ms[0].a) && reflect.DeepEqual(first["end"], ms[0].b), "apply-first-match")
		cnt := hEval("($m := (/"+pat+"/)(s); $n := $m.next(); $exists($n) ? ($exists($n.next()) ? 3 : 2) : 1)", doc)
		want := len(ms)
		if want > 3 {
			want = 3
		}
		verifAssert(cnt.kind == oValue && reflect.DeepEqual(cnt.val, float64(want)), "apply-next-enumerates-the-rest")
	}
}
