//go:build verif

package jsonata

import (
	"math"
	"reflect"
)

// Outcome kinds of an evaluation.
const (
	oValue = iota
	oUndefined
	oEvalError // *EvalError with a type
	oArgCount
	oArgType
	oOtherError
)

type hOutcome struct {
	kind  int
	val   interface{}
	etype ErrType
	err   error
}

// hEvalExpr evaluates a compiled expression on doc and classifies the outcome.
func hEvalExpr(e *Expr, doc interface{}) hOutcome {
	v, err := e.Eval(doc)
	return hClassify(v, err)
}

func hClassify(v interface{}, err error) hOutcome {
	if err == nil {
		return hOutcome{kind: oValue, val: v}
	}
	if err == ErrUndefined {
		return hOutcome{kind: oUndefined}
	}
	switch e := err.(type) {
	case *EvalError:
		return hOutcome{kind: oEvalError, etype: e.Type, err: err}
	case *ArgCountError:
		return hOutcome{kind: oArgCount, err: err}
	case *ArgTypeError:
		return hOutcome{kind: oArgType, err: err}
	}
	return hOutcome{kind: oOtherError, err: err}
}

func hEval(expr string, doc interface{}) hOutcome {
	e, err := Compile(expr)
	if err != nil {
		verifFail("harness-expression-does-not-compile")
		return hOutcome{kind: oOtherError}
	}
	return hEvalExpr(e, doc)
}

// hFinite returns an arbitrary finite double (what a JSON document can hold).
func hFinite() float64 {
	f := verifFloat()
	verifAssume(!math.IsNaN(f) && !math.IsInf(f, 0))
	return f
}

// hSafeString returns a symbolic string of at most n printable ASCII bytes without characters that
// JSON encoding would escape (so that string conversion of it is the identity).
func hSafeString(n int) string {
	s := verifString(n)
	for i := 0; i < len(s); i++ {
		c := s[i]
		verifAssume(c >= 0x20 && c < 0x7f && c != '"' && c != '\\' && c != '<' && c != '>' && c != '&')
	}
	return s
}

func hSameFloat(a, b float64) bool {
	return a == b || (a != a && b != b)
}

// hNorm returns v with the evaluator's representation of JSON null inside containers
// ((*interface{})(nil)) replaced by nil, i.e. the value as JSON encoding sees it.
func hNorm(v interface{}) interface{} {
	switch x := v.(type) {
	case *interface{}:
		if x == nil {
			return nil
		}
		return hNorm(*x)
	case []interface{}:
		out := make([]interface{}, len(x))
		for i := range x {
			out[i] = hNorm(x[i])
		}
		return out
	case map[string]interface{}:
		out := make(map[string]interface{}, len(x))
		for k, e := range x {
			out[k] = hNorm(e)
		}
		return out
	}
	return v
}

// hDeepCopy copies a JSON-shaped value (what a JSON encode/decode round trip yields for such values).
func hDeepCopy(v interface{}) interface{} {
	switch x := v.(type) {
	case []interface{}:
		out := make([]interface{}, len(x))
		for i := range x {
			out[i] = hDeepCopy(x[i])
		}
		return out
	case map[string]interface{}:
		out := make(map[string]interface{}, len(x))
		for k, e := range x {
			out[k] = hDeepCopy(e)
		}
		return out
	case *interface{}:
		if x == nil {
			return nil
		}
	}
	return v
}

// VerifSummary_clone stands in for (*transformationCallable).clone, which copies its argument by a
// JSON text round trip (jlib.String + json.Decoder). Number formatting/parsing is the library's and
// cannot be encoded for symbolic numbers, so the round trip is summarised as the deep structural
// copy it denotes on JSON-shaped values. Stated in specs (stubs) wherever it is used.
func VerifSummary_clone(f *transformationCallable, v reflect.Value) (reflect.Value, error) {
	if v == undefined {
		return undefined, nil
	}
	if !v.CanInterface() {
		return undefined, ErrUndefined
	}
	return reflect.ValueOf(hDeepCopy(v.Interface())), nil
}
