//go:build verif

package jsonata

import "reflect"

// ---------------------------------------------------------------------------------------------
// C05 — evaluation is repeatable and leaves the compiled expression unchanged.
// C07 — input documents are never modified; transform returns a modified copy.
// ---------------------------------------------------------------------------------------------

// c05Templates covers every node type and a representative of every built-in family.
var c05Templates = []string{
	`a`, `a.b`, `a.b[0]`, `a[b > 0]`, `*`, `**`, `$`, `$$`, `[a, b]`, `{"k": a}`, `a{"k": b}`, `(a; b)`, `-n`, `n + 1`, `n < 1`, `n = 1 and s = "x"`, `s & "x"`,
	`[1..3]`, `n > 0 ? "p" : "q"`, `($x := n; $x + 1)`, `function($x){$x + 1}(n)`, `function($x)<n:n>{$x}(n)`, `$sum(arr)`, `$count(arr)`, `$string(n)`,
	`$substringBefore(s, "x")`, `s.$substringBefore("x")`, `$uppercase(s)`, `$pad(s, 3)`, `$pad(?, 2)(s)`, `n ~> $power(2)`, `4 ~> $power(2)`, `s ~> $uppercase()`,
	`$uppercase ~> $lowercase`, `arr^(>$)`, `arr^($)`, `$sort(arr)`, `$reverse(arr)`, `$append(arr, n)`, `$map(arr, function($v){$v + 1})`, `$filter(arr, function($v){$v > 0})`,
	`$reduce(arr, function($x,$y){$x + $y})`, `$zip(arr, arr)`, `$distinct(arr)`, `$keys(o)`, `$merge([o, {"z": 1}])`, `$spread(o)`, `$each(o, function($v,$k){$k})`, `$lookup(o, "p")`,
	`o ~> |$|{"z": 1}|`, `o ~> |$|{"z": 1}, ["p"]|`, `$ ~> |o|{"z": n}|`, `/x/`, `$match(s, /x/)`, `$replace(s, "x", "y")`, `$split(s, "x")`, `$join(["a","b"], s)`, `$contains(s, "x")`,
	`$number("1")`, `$round(n)`, `$abs(n)`, `$floor(n)`, `$boolean(n)`, `$not(n)`, `$exists(a)`, `$type(n)`, `$length(s)`, `$trim(s)`, `$base64encode(s)`, `null`, `true`, `"lit"`, `1.5`,
	`$not_defined`, `a.nope`, `n in arr`, `arr[0]`, `arr[-1]`, `arr[[0,1]]`, `($f := function($x){$x}; $f(n))`, `a.b.$string()`, `$sift(o, function($v){$v > 0})`, `$shuffle([n])`, `$millis() >= 0`,
}

func c05Doc() map[string]interface{} {
	n := hFinite()
	m := hFinite()
	return map[string]interface{}{
		"a":   map[string]interface{}{"b": []interface{}{n, m}},
		"b":   m,
		"n":   n,
		"s":   hSafeString(2),
		"arr": []interface{}{n, m, 3.0},
		"o":   map[string]interface{}{"p": n, "q": m},
	}
}

func hSameOutcome(x, y hOutcome) bool {
	if x.kind != y.kind {
		return false
	}
	switch x.kind {
	case oValue:
		return reflect.DeepEqual(hNorm(x.val), hNorm(y.val)) || (hIsCallable(x.val) && hIsCallable(y.val))
	case oEvalError:
		return x.etype == y.etype
	}
	return true
}

func hIsCallable(v interface{}) bool {
	_, ok := v.(interface{ ParamCount() int })
	return ok
}

// VerifH_C05_Repeat: evaluating one compiled expression twice on equal inputs gives equal outcomes,
// the printed form is unchanged, and nothing that existed before the evaluation (the parsed tree, the
// process-wide function objects, the caller's document) is written to (write-set monitor).
func VerifH_C05_Repeat() {
	t := c05Templates[verifChoose(len(c05Templates))]
	verifNote(t)
	e, err := Compile(t)
	if err != nil {
		verifFail("c05-template-compiles")
		return
	}
	doc := c05Doc()
	before := e.String()
	verifFreeze()
	o1 := hEvalExpr(e, doc)
	verifThaw()
	verifAssert(e.String() == before, "printed-form-unchanged")
	verifFreeze()
	o2 := hEvalExpr(e, doc)
	verifThaw()
	verifAssert(e.String() == before, "printed-form-unchanged")
	switch t {
	case `$shuffle([n])`:
		// sanctioned variation
	case `*`, `**`, `$keys(o)`, `$spread(o)`, `$each(o, function($v,$k){$k})`:
		// the member order of objects is unspecified: compare as multisets
		verifAssert(hSameOutcomeUnordered(o1, o2), "same-outcome-on-repeat")
	default:
		verifAssert(hSameOutcome(o1, o2), "same-outcome-on-repeat")
	}
}

// VerifH_C05_History: the outcome of an expression does not depend on which other expression -
// in particular another call of the same built-in under another context - was evaluated before.
func VerifH_C05_History() {
	pairs := [][2]string{
		{`$pad(?, 2)(s)`, `t.$pad(5)`},
		{`s.$substringBefore("x")`, `t.$substringBefore("y")`},
		{`s ~> $uppercase`, `t.$uppercase()`},
		{`$string()`, `t.$string()`},
		{`s.$length()`, `t.$length()`},
		{`4 ~> $power(2)`, `n ~> $power(3)`},
		// a built-in reached through a composition after the same built-in was used bare on the right of
		// ~> or partially applied under another context
		{`($f := $lowercase ~> $contains; $f("ELL"))`, `t.("x" ~> $contains)`},
		{`($f := $lowercase ~> $substringBefore; $f("A"))`, `t.("x" ~> $substringBefore)`},
		{`($f := $uppercase ~> $pad; $f("a"))`, `t.$pad(?, 3)(2)`},
		{`($f := $string ~> $split; $f(1))`, `t.(" " ~> $split)`},
		{`($f := $lowercase ~> $contains; $f("ELL"))`, `t.$contains(?)("x")`},
	}
	p := pairs[verifChoose(len(pairs))]
	doc := map[string]interface{}{"s": hSafeString(2), "t": hSafeString(2), "n": hFinite()}
	e1, err1 := Compile(p[0])
	e2, err2 := Compile(p[1])
	if err1 != nil || err2 != nil {
		verifFail("c05-template-compiles")
		return
	}
	fresh := hEvalExpr(e1, doc)
	_ = hEvalExpr(e2, doc)
	after := hEvalExpr(e1, doc)
	verifAssert(hSameOutcome(fresh, after), "outcome-independent-of-history")
	e3, _ := Compile(p[0])
	verifAssert(hSameOutcome(fresh, hEvalExpr(e3, doc)), "outcome-independent-of-history-fresh-expr")
}

func hSameOutcomeUnordered(x, y hOutcome) bool {
	if x.kind != y.kind {
		return false
	}
	if x.kind != oValue {
		return hSameOutcome(x, y)
	}
	xs, ok1 := x.val.([]interface{})
	ys, ok2 := y.val.([]interface{})
	if !ok1 || !ok2 {
		if a, ok := x.val.([]string); ok {
			b, ok := y.val.([]string)
			if !ok || len(a) != len(b) {
				return false
			}
			for _, s := range a {
				found := false
				for _, t := range b {
					if s == t {
						found = true
					}
				}
				if !found {
					return false
				}
			}
			return true
		}
		return hSameOutcome(x, y)
	}
	if len(xs) != len(ys) {
		return false
	}
	used := make([]bool, len(ys))
	for _, a := range xs {
		found := false
		for j, b := range ys {
			if !used[j] && reflect.DeepEqual(hNorm(a), hNorm(b)) {
				used[j] = true
				found = true
				break
			}
		}
		if !found {
			return false
		}
	}
	return true
}

// VerifH_C05_Inputs: the outcome for input d does not depend on which inputs the same compiled
// expression evaluated before (compare with a freshly compiled expression).
func VerifH_C05_Inputs() {
	templates := []string{
		`n > 0 ? $big := n : $big`, `[$v, $v := n]`, `($x := n; $x)`, `$f := function($a){$a + n}`, `n`, `arr[n]`, `$count(arr)`, `s & "x"`, `n ~> $power(2)`,
		`s ~> $replace("a", "X", 2)`, `s ~> $substring(0, 1)`, `arr ~> $map(function($v){$v})`, `{"k": n}`, `a.b`, `$exists(n) ? n : "none"`, `n ~> $pad(3, "x")`,
	}
	t := templates[verifChoose(len(templates))]
	verifNote(t)
	e1, err1 := Compile(t)
	e2, err2 := Compile(t)
	if err1 != nil || err2 != nil {
		verifFail("c05-template-compiles")
		return
	}
	mk := func(pos bool) map[string]interface{} {
		d := map[string]interface{}{"s": "banana", "arr": []interface{}{1.0, 2.0}, "a": map[string]interface{}{"b": 1.0}}
		n := hFinite()
		if pos {
			verifAssume(n > 0)
			d["n"] = n
		} else if verifBool() {
			verifAssume(n <= 0)
			d["n"] = n
		}
		return d
	}
	docA, docB := mk(true), mk(false)
	before := e1.String()
	_ = hEvalExpr(e1, docA)
	verifAssert(e1.String() == before, "printed-form-unchanged-after-first-input")
	after := hEvalExpr(e1, docB)
	fresh := hEvalExpr(e2, docB)
	verifAssert(hSameOutcome(after, fresh), "outcome-independent-of-earlier-inputs")
}
