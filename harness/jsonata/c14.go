//go:build verif

package jsonata

import "reflect"

// ---------------------------------------------------------------------------------------------
// C14 — object construction, grouping and object functions share one object model.
// ---------------------------------------------------------------------------------------------

// VerifH_C14_Group: seq{k: v} yields one member per distinct key whose value is v over exactly the
// items with that key, in order (partition law), for N items with symbolic keys and values.
func VerifH_C14_Group() {
	n := 1 + verifChoose(verifParam("N", 3))
	keys := make([]string, n)
	vals := make([]float64, n)
	arr := make([]interface{}, n)
	for i := 0; i < n; i++ {
		keys[i] = hSafeString(1)
		vals[i] = hFinite()
		arr[i] = map[string]interface{}{"k": keys[i], "v": vals[i]}
	}
	doc := map[string]interface{}{"items": arr}
	mode := verifChoose(3)
	expr := []string{`items{k: v}`, `items{k: $count($)}`, `items{k: {"vs": v}}`}[mode]
	got := hEval(expr, doc)
	verifAssert(got.kind == oValue, "group-evaluates")
	if got.kind != oValue {
		return
	}
	obj, ok := got.val.(map[string]interface{})
	verifAssert(ok, "group-is-object")
	if !ok {
		return
	}
	distinct := 0
	for i := 0; i < n; i++ {
		first := true
		var members []interface{}
		for j := 0; j < n; j++ {
			if keys[j] == keys[i] {
				if j < i {
					first = false
				}
				members = append(members, vals[j])
			}
		}
		if first {
			distinct++
		}
		var want interface{}
		switch mode {
		case 0:
			want = members
			if len(members) == 1 {
				want = members[0]
			}
		case 1:
			want = len(members)
		case 2:
			var inner interface{} = members
			if len(members) == 1 {
				inner = members[0]
			}
			want = map[string]interface{}{"vs": inner}
		}
		gv, present := obj[keys[i]]
		verifAssert(present, "group-every-item-lands-in-a-group")
		if present {
			verifAssert(reflect.DeepEqual(gv, want), "group-members-in-order")
		}
	}
	verifAssert(len(obj) == distinct, "group-one-member-per-distinct-key")
}

// VerifH_C14_GroupErrors: a key that is not a string, and the same key from two pairs, are errors;
// members whose value is absent are omitted.
func VerifH_C14_GroupErrors() {
	switch verifChoose(8) {
	case 6: // an item whose key expression has no value: a key that is not a string
		arr := []interface{}{map[string]interface{}{"k": "a", "v": 1.0}, map[string]interface{}{"v": 2.0}, map[string]interface{}{"k": "a", "v": 3.0}}
		got := hEval(`items{k: v}`, map[string]interface{}{"items": arr})
		verifAssert(got.kind == oEvalError && got.etype == ErrIllegalKey, "group-absent-key-is-error")
	case 7: // the same next to a literal pair
		arr := []interface{}{map[string]interface{}{"k": "a", "v": 1.0}, map[string]interface{}{"v": 2.0}}
		got := hEval(`items{k: $sum(v), "n": $count($)}`, map[string]interface{}{"items": arr})
		verifAssert(got.kind == oEvalError && got.etype == ErrIllegalKey, "group-absent-key-is-error")
	case 4: // literal pair first, computed pair second, several items (the key may come from a later item)
		k1, k2 := hSafeString(1), hSafeString(1)
		arr := []interface{}{map[string]interface{}{"k": k1, "v": 1.0}, map[string]interface{}{"k": k2, "v": 2.0}}
		got := hEval(`items{"a": $count(v), k: $sum(v)}`, map[string]interface{}{"items": arr})
		if k1 == "a" || k2 == "a" {
			verifAssert(got.kind == oEvalError && got.etype == ErrDuplicateKey, "group-literal-then-computed-duplicate-is-error")
		} else {
			verifAssert(got.kind == oValue, "group-literal-and-computed-pairs")
		}
	case 5: // the same in a plain object constructor
		k := hSafeString(1)
		got := hEval(`{"a": 1, k: 2}`, map[string]interface{}{"k": k})
		if k == "a" {
			verifAssert(got.kind == oEvalError && got.etype == ErrDuplicateKey, "constructor-literal-then-computed-duplicate-is-error")
		} else {
			verifAssert(got.kind == oValue && reflect.DeepEqual(got.val, map[string]interface{}{"a": 1.0, k: 2.0}), "constructor-two-pairs")
		}
	case 0:
		arr := []interface{}{map[string]interface{}{"k": hFinite(), "v": 1.0}}
		got := hEval(`items{k: v}`, map[string]interface{}{"items": arr})
		verifAssert(got.kind == oEvalError && got.etype == ErrIllegalKey, "group-non-string-key-is-error")
	case 1:
		k := hSafeString(1)
		arr := []interface{}{map[string]interface{}{"k": k, "v": 1.0}}
		got := hEval(`items{k: v, "a": v}`, map[string]interface{}{"items": arr})
		if k == "a" {
			verifAssert(got.kind == oEvalError && got.etype == ErrDuplicateKey, "group-duplicate-key-is-error")
		} else {
			verifAssert(got.kind == oValue, "group-two-pairs")
		}
	case 2:
		k1, k2 := hSafeString(1), hSafeString(1)
		arr := []interface{}{map[string]interface{}{"k": k1, "j": k2, "v": 1.0}}
		got := hEval(`items{k: v, j: v}`, map[string]interface{}{"items": arr})
		if k1 == k2 {
			verifAssert(got.kind == oEvalError && got.etype == ErrDuplicateKey, "group-duplicate-computed-key-is-error")
		} else {
			verifAssert(got.kind == oValue, "group-two-computed-pairs")
		}
	case 3:
		arr := []interface{}{map[string]interface{}{"k": "a", "v": 1.0}, map[string]interface{}{"k": "b"}}
		got := hEval(`items{k: v}`, map[string]interface{}{"items": arr})
		verifAssert(got.kind == oValue && reflect.DeepEqual(got.val, map[string]interface{}{"a": 1.0}), "group-absent-values-omitted")
	}
}

func c14Object() (map[string]interface{}, []string, []float64) {
	names := []string{"x", "y", "z"}
	n := verifChoose(verifParam("N", 3) + 1)
	o := map[string]interface{}{}
	var ks []string
	var vs []float64
	for i := 0; i < n; i++ {
		v := hFinite()
		o[names[i]] = v
		ks = append(ks, names[i])
		vs = append(vs, v)
	}
	return o, ks, vs
}

func c14StringSet(v interface{}) (map[string]int, bool) {
	out := map[string]int{}
	switch x := v.(type) {
	case []string:
		for _, s := range x {
			out[s]++
		}
	case []interface{}:
		for _, e := range x {
			s, ok := e.(string)
			if !ok {
				return nil, false
			}
			out[s]++
		}
	case string:
		out[x]++
	default:
		return nil, false
	}
	return out, true
}

// VerifH_C14_ObjectFunctions: $keys, $each, $sift, $spread, $merge, $lookup agree with the object
// model, for objects of 0..3 members with symbolic values and every map iteration order.
func VerifH_C14_ObjectFunctions() {
	o, ks, vs := c14Object()
	doc := map[string]interface{}{"o": o}
	n := len(ks)
	switch verifChoose(7) {
	case 0: // $keys lists each member name exactly once
		got := hEval(`$keys(o)`, doc)
		if n == 0 {
			verifAssert(got.kind == oUndefined, "keys-empty-object")
			return
		}
		verifAssert(got.kind == oValue, "keys-evaluates")
		set, ok := c14StringSet(got.val)
		verifAssert(ok && len(set) == n, "keys-each-once")
		for _, k := range ks {
			verifAssert(set[k] == 1, "keys-each-once")
		}
	case 1: // $each visits every member exactly once
		got := hEval(`$each(o, function($v, $k){$k})`, doc)
		if n == 0 {
			verifAssert(got.kind == oUndefined, "each-empty-object")
			return
		}
		verifAssert(got.kind == oValue, "each-evaluates")
		set, ok := c14StringSet(got.val)
		verifAssert(ok && len(set) == n, "each-visits-each-once")
		for _, k := range ks {
			verifAssert(set[k] == 1, "each-visits-each-once")
		}
	case 2: // $sift keeps exactly the members whose value satisfies the predicate
		got := hEval(`$sift(o, function($v){$v > 0})`, doc)
		want := map[string]interface{}{}
		for i, k := range ks {
			if vs[i] > 0 {
				want[k] = vs[i]
			}
		}
		if len(want) == 0 {
			verifAssert(got.kind == oUndefined, "sift-nothing-kept")
			return
		}
		verifAssert(got.kind == oValue && reflect.DeepEqual(got.val, want), "sift")
	case 3: // $spread yields one single-member object per member
		got := hEval(`$spread(o)`, doc)
		if n == 0 {
			return
		}
		verifAssert(got.kind == oValue, "spread-evaluates")
		var parts []interface{}
		switch x := got.val.(type) {
		case []interface{}:
			parts = x
		default:
			parts = []interface{}{x}
		}
		verifAssert(len(parts) == n, "spread-one-per-member")
		for i, k := range ks {
			found := 0
			for _, p := range parts {
				if reflect.DeepEqual(p, map[string]interface{}{k: vs[i]}) {
					found++
				}
			}
			verifAssert(found == 1, "spread-singletons")
		}
	case 4: // $merge($spread(o)) = o
		if n == 0 {
			return
		}
		got := hEval(`$merge($spread(o))`, doc)
		verifAssert(got.kind == oValue && reflect.DeepEqual(got.val, map[string]interface{}(o)), "merge-spread-identity")
	case 5: // later objects take precedence
		w := hFinite()
		got := hEval(`$merge([o, {"x": w}])`, map[string]interface{}{"o": o, "w": w})
		want := map[string]interface{}{}
		for i, k := range ks {
			want[k] = vs[i]
		}
		want["x"] = w
		verifAssert(got.kind == oValue && reflect.DeepEqual(got.val, want), "merge-later-wins")
	case 6: // $lookup(o, k) = o.k when the member exists
		for i, k := range ks {
			got := hEval(`$lookup(o, "`+k+`")`, doc)
			sel := hEval("o."+k, doc)
			verifAssert(got.kind == oValue && sel.kind == oValue && reflect.DeepEqual(got.val, sel.val) && reflect.DeepEqual(got.val, vs[i]), "lookup-equals-selection")
		}
	}
}

// VerifH_C14_KeysArray: $keys over an array of 1..4 objects with symbolic membership of the names
// a, b, c lists each distinct name exactly once.
func VerifH_C14_KeysArray() {
	m := 1 + verifChoose(verifParam("OBJS", 4))
	names := []string{"a", "b", "c"}
	objs := make([]interface{}, m)
	present := map[string]bool{}
	for i := range objs {
		om := map[string]interface{}{}
		for _, nm := range names {
			if verifBool() {
				om[nm] = float64(i)
				present[nm] = true
			}
		}
		objs[i] = om
	}
	got := hEval(`$keys(objs)`, map[string]interface{}{"objs": objs})
	if len(present) == 0 {
		verifAssert(got.kind == oUndefined, "keys-of-empty-objects")
		return
	}
	verifAssert(got.kind == oValue, "keys-array-evaluates")
	set, ok := c14StringSet(got.val)
	verifAssert(ok && len(set) == len(present), "keys-array-each-once")
	for nm := range present {
		verifAssert(set[nm] == 1, "keys-array-each-once")
	}
}
