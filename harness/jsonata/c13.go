//go:build verif

package jsonata

import "reflect"

// ---------------------------------------------------------------------------------------------
// C13 — order-by and $sort return stable, correctly ordered permutations.
// ---------------------------------------------------------------------------------------------

type c13Item struct {
	hasK bool
	k    float64
	hasS bool
	s    string
}

type c13Term struct {
	key  string // "k" or "s"
	desc bool
}

var c13Specs = []struct {
	text  string
	terms []c13Term
}{
	{"k", []c13Term{{"k", false}}},
	{"<k", []c13Term{{"k", false}}},
	{">k", []c13Term{{"k", true}}},
	{"s", []c13Term{{"s", false}}},
	{">s", []c13Term{{"s", true}}},
	{"k, >s", []c13Term{{"k", false}, {"s", true}}},
	{">s, k", []c13Term{{"s", true}, {"k", false}}},
	{">k, <s", []c13Term{{"k", true}, {"s", false}}},
}

// c13Cmp compares items a, b on one term: -1 a before b, 0 tie, +1 a after b (missing last).
func c13Cmp(a, b c13Item, t c13Term) int {
	var ha, hb bool
	var lt, gt bool
	if t.key == "k" {
		ha, hb = a.hasK, b.hasK
		lt, gt = a.k < b.k, a.k > b.k
	} else {
		ha, hb = a.hasS, b.hasS
		lt, gt = a.s < b.s, a.s > b.s
	}
	switch {
	case !ha && !hb:
		return 0
	case !ha:
		return 1
	case !hb:
		return -1
	}
	if t.desc {
		lt, gt = gt, lt
	}
	if lt {
		return -1
	}
	if gt {
		return 1
	}
	return 0
}

func c13CmpAll(a, b c13Item, terms []c13Term) int {
	for _, t := range terms {
		if c := c13Cmp(a, b, t); c != 0 {
			return c
		}
	}
	return 0
}

func c13MakeItems(n int, symbolicStrings bool) ([]c13Item, []interface{}) {
	items := make([]c13Item, n)
	arr := make([]interface{}, n)
	for i := 0; i < n; i++ {
		m := map[string]interface{}{"id": float64(i)}
		it := c13Item{}
		if verifBool() {
			it.hasK = true
			it.k = hFinite()
			m["k"] = it.k
		}
		if verifBool() {
			it.hasS = true
			if symbolicStrings {
				it.s = hSafeString(1)
			} else {
				it.s = []string{"a", "b"}[verifChoose(2)]
			}
			m["s"] = it.s
		}
		items[i] = it
		arr[i] = m
	}
	return items, arr
}

// c13Ids extracts the id sequence from a result (scalar for a single item).
func c13Ids(v interface{}, n int) ([]int, bool) {
	var vals []interface{}
	switch x := v.(type) {
	case []interface{}:
		vals = x
	default:
		vals = []interface{}{v}
	}
	if len(vals) != n {
		return nil, false
	}
	ids := make([]int, n)
	for i, e := range vals {
		f, ok := e.(float64)
		if !ok {
			return nil, false
		}
		ids[i] = int(f)
	}
	return ids, true
}

func c13CheckOrder(ids []int, items []c13Item, terms []c13Term, tag string) {
	n := len(items)
	seen := make([]bool, n)
	for _, id := range ids {
		if id < 0 || id >= n || seen[id] {
			verifFail(tag + "-permutation")
			return
		}
		seen[id] = true
	}
	for i := 0; i+1 < len(ids); i++ {
		c := c13CmpAll(items[ids[i]], items[ids[i+1]], terms)
		verifAssert(c <= 0, tag+"-ordered")
		if c == 0 {
			verifAssert(ids[i] < ids[i+1], tag+"-stable")
		}
	}
}

// VerifH_C13_OrderBy: seq^(terms) is a stable, ordered permutation for N items with symbolic keys
// (each possibly missing), for every direction combination in the menu.
func VerifH_C13_OrderBy() {
	n := verifParam("N", 3)
	items, arr := c13MakeItems(n, true)
	sp := c13Specs[verifChoose(len(c13Specs))]
	doc := map[string]interface{}{"items": arr}
	// the sequence to sort is a member of the input, the input array itself ($), the root ($$), or a
	// filtered context; a following step sees the sorted order
	var got hOutcome
	switch verifChoose(4) {
	case 0:
		got = hEval("items^("+sp.text+").id", doc)
	case 1:
		got = hEval("$^("+sp.text+").id", interface{}(arr))
	case 2:
		got = hEval("$$^("+sp.text+").id", interface{}(arr))
	case 3:
		got = hEval("$[id >= 0]^("+sp.text+").id", interface{}(arr))
	}
	verifAssert(got.kind == oValue, "orderby-evaluates")
	if got.kind != oValue {
		return
	}
	ids, ok := c13Ids(got.val, n)
	verifAssert(ok, "orderby-shape")
	if ok {
		c13CheckOrder(ids, items, sp.terms, "orderby")
	}
}

// VerifH_C13_OrderByErrors: keys of another type or of mixed number/string type are errors.
func VerifH_C13_OrderByErrors() {
	n := verifParam("N", 3)
	arr := make([]interface{}, n)
	nums, strs, bad := 0, 0, 0
	for i := 0; i < n; i++ {
		m := map[string]interface{}{"id": float64(i)}
		switch verifChoose(5) {
		case 0:
		case 1:
			m["k"] = hFinite()
			nums++
		case 2:
			m["k"] = hSafeString(1)
			strs++
		case 3:
			m["k"] = verifBool()
			bad++
		case 4:
			m["k"] = []interface{}{hFinite()}
			bad++
		}
		arr[i] = m
	}
	got := hEval("items^(k).id", map[string]interface{}{"items": arr})
	mixed := nums > 0 && strs > 0
	if bad == 0 && !mixed {
		verifAssert(got.kind == oValue, "orderby-homogeneous-keys-sort")
		return
	}
	verifAssert(got.kind == oEvalError, "orderby-bad-keys-are-errors")
	if got.kind == oEvalError {
		switch {
		case bad > 0 && !mixed:
			verifAssert(got.etype == ErrNonSortable, "orderby-non-sortable")
		case bad == 0 && mixed:
			verifAssert(got.etype == ErrSortMismatch, "orderby-mismatch")
		default:
			verifAssert(got.etype == ErrNonSortable || got.etype == ErrSortMismatch, "orderby-error-kind")
		}
	}
}

// VerifH_C13_SortBuiltin: $sort(a) on all-number / all-string arrays is an ascending permutation.
func VerifH_C13_SortBuiltin() {
	n := verifParam("N", 3)
	arr := make([]interface{}, n)
	strMode := verifBool()
	nums := make([]float64, n)
	strs := make([]string, n)
	for i := 0; i < n; i++ {
		if strMode {
			strs[i] = hSafeString(1)
			arr[i] = strs[i]
		} else {
			nums[i] = hFinite()
			arr[i] = nums[i]
		}
	}
	got := hEval("$sort(a)", map[string]interface{}{"a": arr})
	verifAssert(got.kind == oValue, "sort-evaluates")
	if got.kind != oValue {
		return
	}
	res, ok := got.val.([]interface{})
	verifAssert(ok && len(res) == n, "sort-shape")
	if !ok || len(res) != n {
		return
	}
	// ordered
	for i := 0; i+1 < n; i++ {
		if strMode {
			verifAssert(res[i].(string) <= res[i+1].(string), "sort-ascending")
		} else {
			verifAssert(res[i].(float64) <= res[i+1].(float64), "sort-ascending")
		}
	}
	// permutation: every input value occurs in the output at least as often as in the input
	for i := 0; i < n; i++ {
		cin, cout := 0, 0
		for j := 0; j < n; j++ {
			if strMode {
				if strs[j] == strs[i] {
					cin++
				}
				if res[j].(string) == strs[i] {
					cout++
				}
			} else {
				if nums[j] == nums[i] {
					cin++
				}
				if res[j].(float64) == nums[i] {
					cout++
				}
			}
		}
		verifAssert(cin == cout, "sort-permutation")
	}
}

// VerifH_C13_SortFunc: $sort(a, f) with f(x, y) = x.k > y.k is a stable ordered permutation.
func VerifH_C13_SortFunc() {
	n := verifParam("N", 3)
	items := make([]c13Item, n)
	arr := make([]interface{}, n)
	for i := 0; i < n; i++ {
		items[i] = c13Item{hasK: true, k: hFinite()}
		arr[i] = map[string]interface{}{"id": float64(i), "k": items[i].k}
	}
	got := hEval("$sort(items, function($x, $y) { $x.k > $y.k }).id", map[string]interface{}{"items": arr})
	verifAssert(got.kind == oValue, "sortfn-evaluates")
	if got.kind != oValue {
		return
	}
	ids, ok := c13Ids(got.val, n)
	verifAssert(ok, "sortfn-shape")
	if ok {
		c13CheckOrder(ids, items, []c13Term{{"k", false}}, "sortfn")
	}
}

// VerifH_C13_SortFuncScalars: a comparator governs $sort also when the array holds only numbers or
// only strings: with f(x, y) = x < y the result is the non-increasing permutation of the input; with
// a comparator on string length the result is ordered by length and stable.
func VerifH_C13_SortFuncScalars() {
	if verifChoose(2) == 0 {
		n := 1 + verifChoose(verifParam("N", 3))
		in := make([]float64, n)
		arr := make([]interface{}, n)
		for i := range arr {
			in[i] = hFinite()
			arr[i] = in[i]
		}
		got := hEval("$sort(nums, function($x, $y) { $x < $y })", map[string]interface{}{"nums": arr})
		verifAssert(got.kind == oValue, "sortfn-scalars-evaluates")
		if got.kind != oValue {
			return
		}
		out, ok := got.val.([]interface{})
		if n == 1 {
			if f, isF := got.val.(float64); isF {
				out, ok = []interface{}{f}, true
			}
		}
		verifAssert(ok && len(out) == n, "sortfn-scalars-shape")
		if !ok || len(out) != n {
			return
		}
		used := make([]bool, n)
		for i := range out {
			f, isF := out[i].(float64)
			verifAssert(isF, "sortfn-scalars-number")
			if i > 0 {
				verifAssert(out[i-1].(float64) >= f, "sortfn-scalars-comparator-order")
			}
			found := false
			for j := range in {
				if !used[j] && in[j] == f && !found {
					used[j], found = true, true
				}
			}
			verifAssert(found, "sortfn-scalars-permutation")
		}
		return
	}
	type tc struct {
		in   []interface{}
		want []interface{}
	}
	cases := []tc{{[]interface{}{"b", "ccc", "aa"}, []interface{}{"b", "aa", "ccc"}}, {[]interface{}{"bb", "a", "cc", "d"}, []interface{}{"a", "d", "bb", "cc"}}, {[]interface{}{"zz", "y"}, []interface{}{"y", "zz"}}}
	c := cases[verifChoose(len(cases))]
	got := hEval("$sort(strs, function($x, $y) { $length($x) > $length($y) })", map[string]interface{}{"strs": c.in})
	verifAssert(got.kind == oValue && reflect.DeepEqual(got.val, interface{}(c.want)), "sortfn-strings-by-length-stable")
}

// VerifH_C13_StableLong: stability beyond the library's small-slice regime: N items with two-valued
// keys (sort.SliceStable sorts blocks of 20 by insertion and merges above that).
func VerifH_C13_StableLong() {
	n := verifParam("N", 21)
	items := make([]c13Item, n)
	arr := make([]interface{}, n)
	ones := 0
	for i := 0; i < n; i++ {
		k := 0.0
		if ones < verifParam("ONES", 2) && verifBool() {
			k = 1
			ones++
		}
		items[i] = c13Item{hasK: true, k: k}
		arr[i] = map[string]interface{}{"id": float64(i), "k": k}
	}
	desc := verifBool()
	expr := "items^(k).id"
	if desc {
		expr = "items^(>k).id"
	}
	got := hEval(expr, map[string]interface{}{"items": arr})
	verifAssert(got.kind == oValue, "long-evaluates")
	if got.kind != oValue {
		return
	}
	ids, ok := c13Ids(got.val, n)
	verifAssert(ok, "long-shape")
	if ok {
		c13CheckOrder(ids, items, []c13Term{{"k", desc}}, "long")
	}
}

// VerifH_C13_SortFuncLong: $sort(a, f) stays stable beyond 12 items (where the library's unstable
// sort stops being an insertion sort): N items with two-valued keys.
func VerifH_C13_SortFuncLong() {
	n := verifParam("N", 14)
	items := make([]c13Item, n)
	arr := make([]interface{}, n)
	ones := 0
	for i := 0; i < n; i++ {
		k := 1.0
		if ones < verifParam("ZEROS", 2) && verifBool() {
			k = 0
			ones++
		}
		items[i] = c13Item{hasK: true, k: k}
		arr[i] = map[string]interface{}{"id": float64(i), "k": k}
	}
	got := hEval("$sort(items, function($x, $y) { $x.k > $y.k }).id", map[string]interface{}{"items": arr})
	verifAssert(got.kind == oValue, "sortfn-long-evaluates")
	if got.kind != oValue {
		return
	}
	ids, ok := c13Ids(got.val, n)
	verifAssert(ok, "sortfn-long-shape")
	if ok {
		c13CheckOrder(ids, items, []c13Term{{"k", false}}, "sortfn-long")
	}
}
