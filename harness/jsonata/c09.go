//go:build verif

package jsonata

import (
	"encoding/json"
	"math"
)

// ---------------------------------------------------------------------------------------------
// C09 — Eval is total.   C10 — results are JSON-representable; EvalBytes agrees.
// ---------------------------------------------------------------------------------------------

var c09Builtins = []string{"string", "length", "substring", "substringBefore", "substringAfter", "uppercase", "lowercase", "pad", "trim", "contains", "split", "join", "match", "replace",
	"formatNumber", "formatBase", "base64encode", "base64decode", "decodeUrl", "decodeUrlComponent", "encodeUrl", "encodeUrlComponent", "number", "abs", "floor", "ceil", "round", "power", "sqrt",
	"random", "sum", "max", "min", "average", "boolean", "not", "exists", "distinct", "count", "reverse", "sort", "shuffle", "zip", "append", "map", "filter", "reduce", "single", "each", "sift",
	"keys", "lookup", "spread", "merge", "fromMillis", "toMillis", "type", "error", "millis", "now"}

// argument kinds as expression texts over c09Doc (type-chaotic placement)
var c09Args = []string{
	"nothing", "n", "0", "-1.5", "s", `""`, `"$99999999999999999999"`, `"0.0e0"`, `"[Y]-[M01]"`, `"+0100"`, "true", "null", "[]", "arr1", "arr2", "{}", "obj1", "$sum", "function($x){$x}", "/a/", "objs", `"#,##0.00"`, "function($a, $b){$b.nothing}",
	"objs[2]", // a JSON null inside an array
	`function($s){{"match": "a", "start": 5, "end": 9, "groups": [], "next": function(){$nothing}}}`, // a hand-written matcher with indexes outside the string
}

func c09Doc() map[string]interface{} {
	return map[string]interface{}{
		"n":    3.0,
		"s":    "héllo a",
		"arr1": append(make([]interface{}, 0, 4), 2.0), // spare capacity, as decoded JSON arrays have
		"arr2": []interface{}{[]interface{}{2.0}},
		"obj1": map[string]interface{}{"a": 1.0},
		"objs": []interface{}{map[string]interface{}{"a": 1.0, "b": "x"}, map[string]interface{}{"a": "z"}, nil, []interface{}{}},
	}
}

// hJSONValue reports whether v is built only from JSON-representable values (function values count
// as representable: they marshal as empty strings) with finite numbers.
func hJSONValue(v interface{}) bool {
	switch x := v.(type) {
	case nil, bool, string:
		return true
	case float64:
		return !math.IsNaN(x) && !math.IsInf(x, 0)
	case float32:
		return true
	case int, int8, int16, int32, int64, uint, uint8, uint16, uint32, uint64:
		return true
	case []interface{}:
		for _, e := range x {
			if !hJSONValue(e) {
				return false
			}
		}
		return true
	case []string:
		return true
	case []map[string]interface{}:
		for _, e := range x {
			if !hJSONValue(e) {
				return false
			}
		}
		return true
	case map[string]interface{}:
		for _, e := range x {
			if !hJSONValue(e) {
				return false
			}
		}
		return true
	case *interface{}:
		return x == nil || hJSONValue(*x)
	case json.Marshaler:
		return true
	}
	return false
}

func c09Check(expr string, doc interface{}) {
	verifNote(expr)
	e, err := Compile(expr)
	if err != nil {
		return // not a program
	}
	v, err := e.Eval(doc) // must return: a panic or an exhausted budget is reported by the engine
	if err == nil {
		verifAssert(hJSONValue(v), "result-is-json-representable")
	} else {
		verifAssert(v == nil, "error-comes-with-nil-result")
	}
}

// VerifH_C09_Builtins: every built-in with 0, 1 and 2 arguments of every kind (and a third argument
// from a small menu): Eval returns (value | ErrUndefined | error), never panics, never hangs.
func VerifH_C09_Builtins() {
	c09Check(c09BuiltinExpr(len(c09Args)), c09Doc())
}

// c09BuiltinExpr picks a built-in, an arity 0..3 and argument kinds from the first nargs kinds.
func c09BuiltinExpr(nargs int) string { return c09BuiltinExprM(c09Args[:nargs]) }

func c09BuiltinExprM(args []string) string {
	f := c09Builtins[verifChoose(len(c09Builtins))]
	arity := verifChoose(4)
	expr := "$" + f + "("
	small := []string{"nothing", "n", "s", `"$99999999999999999999"`, "arr1", "obj1", "$sum", "/a/", c09Args[len(c09Args)-1]}
	for i := 0; i < arity; i++ {
		if i > 0 {
			expr += ", "
		}
		menu := args
		if arity == 3 {
			menu = small
			if i == 2 {
				menu = []string{"n", "s", "nothing"}
			}
		}
		expr += menu[verifChoose(len(menu))]
	}
	return expr + ")"
}

var c09NodeTemplates = []string{
	"X.Y", "X[Y]", "X{Y: X}", "X^(Y)", "X ~> Y", "X ? Y : X", "[X..Y]", "X & Y", "-X", "X(Y)", "X.*", "X.**", "X.*.Y", "X[Y][X]", "(X; Y)", "[X, Y]", `{"k": X, "j": Y}`, "X = Y", "X < Y", "X in Y",
	"X and Y", "X + Y", "X.Y[0]", "$ ~> |X|Y|", "$ ~> |X|Y, X|", "X.$keys()", "$keys(X).Y", "$distinct([X, Y])", "X[].Y", "X.Y[]", "$map(X, Y)", "X.(Y)", "($v := X; $v.Y)", "X(?, Y)(X)",
	"function($a)<n+>{$a}(Y)", "function($a, $b)<a<n>s?:n>{$a}(X, Y)", "$type($lookup(X, Y))", "X ~> Y ~> X", "X^(>Y, <X)", "X{Y: $sum(X)}",
	// function values that have been through built-ins which copy their members
	"$distinct([X])[0](Y)", "Y ~> $distinct([X, 1])[0]", "$map($distinct([X]), function($g){$g(Y)})", "$append(X, Y)[0](Y)", "$reverse([X, Y])[1](Y)", "$map(X, $type)", "$map([X, Y], $string)",
}

// VerifH_C09_Nodes: every node type with sub-expressions of every kind in every slot.
func VerifH_C09_Nodes() {
	c09Check(c09NodeExpr(len(c09Args)), c09Doc())
}

func c09NodeExpr(nargs int) string { return c09NodeExprM(c09Args[:nargs]) }

func c09NodeExprM(args []string) string {
	t := c09NodeTemplates[verifChoose(len(c09NodeTemplates))]
	x := args[verifChoose(len(args))]
	y := args[verifChoose(len(args))]
	expr := ""
	for i := 0; i < len(t); i++ {
		switch t[i] {
		case 'X':
			expr += x
		case 'Y':
			expr += y
		default:
			expr += t[i : i+1]
		}
	}
	return expr
}

// VerifH_C09_Numeric: numeric built-ins and size-like parameters on symbolic numbers (any finite
// double, and the edges of the grammars): outcomes are returned, results finite.
func VerifH_C09_Numeric() {
	x := hFinite()
	y := hFinite()
	templates := []string{"$abs(x)", "$floor(x)", "$ceil(x)", "$sqrt(x)", "$power(x, y)", "$round(x)", "$substring(\"héllo\", x, y)", "$pad(\"ab\", x)", "$split(\"a b\", \" \", x)",
		"x + y", "x * y", "x / y", "x % y", "-x", "[x..y]", "$sum([x, y])", "$average([x, y])", "$max([x, y])", "arr[x]", "arr[[x, y]]", "$boolean(x)", "$not(x)", "$number(x)", "$exists(x)", "$count(x)"}
	t := templates[verifChoose(len(templates))]
	if t == "$pad(\"ab\", x)" || t == "[x..y]" {
		// sizes bounded so that termination is expected within the budget
		verifAssume(x > -8 && x < 8 && y > -8 && y < 8)
	}
	c09Check(t, map[string]interface{}{"x": x, "y": y, "arr": []interface{}{1.0, 2.0, 3.0}})
}

// VerifH_C09_NumericEdges: the same templates (plus two-argument $round and $formatBase) with both
// operands drawn from the edges of the double range, where library functions are run exactly
// instead of through their symbolic models.
func VerifH_C09_NumericEdges() {
	edges := []float64{0, math.Copysign(0, -1), 1, -1, 2, 0.5, -0.5, 10, -10, 309, -309, -308, 1e308, -1e308, 1.5e308, 5e-324, 1e-320, 9007199254740993, -9223372036854775808, 1e21, 36, 0.49999999999999994}
	x := edges[verifChoose(len(edges))]
	y := edges[verifChoose(len(edges))]
	templates := []string{"$abs(x)", "$floor(x)", "$ceil(x)", "$sqrt(x)", "$power(x, y)", "$round(x)", "$round(x, y)", "$formatBase(x, y)", "$substring(\"héllo\", x, y)", "$split(\"a b\", \" \", x)",
		"x + y", "x * y", "x / y", "x % y", "-x", "$sum([x, y])", "$average([x, y])", "$max([x, y])", "arr[x]", "arr[[x, y]]", "$number($string(x))", "$string(x)", "$formatNumber(x, \"#,##0.00\")", "$formatNumber(x, \"0.0e0\")",
		"$fromMillis(x)", "$string(x / y)", "[x..y]", "$pad(\"ab\", x)"}
	t := templates[verifChoose(len(templates))]
	if t == "$pad(\"ab\", x)" || t == "[x..y]" {
		if !(x > -400 && x < 400 && y > -400 && y < 400) {
			return // sizes bounded so that termination is expected within the budget
		}
	}
	c09Check(t, map[string]interface{}{"x": x, "y": y, "arr": []interface{}{1.0, 2.0, 3.0}})
}

// VerifH_C10_EvalBytes: EvalBytes succeeds exactly when decoding and Eval succeed, returns the JSON
// encoding of the same value, and rejects input that is not valid JSON.
func VerifH_C10_EvalBytes() {
	exprs := []string{"a", "a.b", "$sum(arr)", "arr[0]", "nothing", "$", "{\"k\": arr}", "a.b & \"x\"", "$sum", "[a.b, null]", "arr.$string()", "1/0", "$keys($)", `$ ~> |$|{"self": $}|`}
	docs := []string{`{"a":{"b":1.5},"arr":[1,2,3]}`, `[1,"x",null,{"a":{"b":[true]}}]`, `"str"`, `null`, `{"a":`, ``, `{"arr":[1e308,1e308]}`, `tru`,
		`{"a":{"b":1}} x`, `{"a":{"b":1}}{"a":{"b":2}}`, `[1,2]]`, `{"a":{"b":1}},`, " \n{\"a\":{\"b\":2}}\t "}
	ex := exprs[verifChoose(len(exprs))]
	d := docs[verifChoose(len(docs))]
	e, err := Compile(ex)
	if err != nil {
		verifFail("c10-template-compiles")
		return
	}
	out, berr := e.EvalBytes([]byte(d))
	var in interface{}
	uerr := json.Unmarshal([]byte(d), &in)
	if uerr != nil {
		verifAssert(berr != nil, "evalbytes-rejects-invalid-json")
		return
	}
	v, eerr := e.Eval(in)
	if ex == `$ ~> |$|{"self": $}|` {
		// an update that refers to the matched object makes the result contain itself; own id: the
		// port (like the reference implementation) returns that value (known finding)
		verifAssert((berr == nil) == (eerr == nil), "evalbytes-succeeds-iff-eval-succeeds:transform-update-refers-to-match")
		return
	}
	verifAssert((berr == nil) == (eerr == nil), "evalbytes-succeeds-iff-eval-succeeds")
	if berr == nil && eerr == nil {
		want, merr := json.Marshal(v)
		verifAssert(merr == nil, "result-marshals")
		verifAssert(string(out) == string(want), "evalbytes-returns-encoding-of-eval-result")
	}
}
