//go:build verif

package jsonata

import "reflect"

// ---------------------------------------------------------------------------------------------
// C15 — array, higher-order and aggregate functions compute their definitions.
// ---------------------------------------------------------------------------------------------

// c15Array builds an input array of n symbolic finite numbers.
func c15Array(n int) ([]float64, []interface{}) {
	fs := make([]float64, n)
	arr := make([]interface{}, n)
	for i := range fs {
		fs[i] = hFinite()
		arr[i] = fs[i]
	}
	return fs, arr
}

// c15List views an Eval outcome as a list: no value / nil slice / empty slice are the empty list.
func c15List(o hOutcome) ([]interface{}, bool) {
	switch o.kind {
	case oUndefined:
		return nil, true
	case oValue:
		if l, ok := o.val.([]interface{}); ok {
			return l, true
		}
		return []interface{}{o.val}, true
	}
	return nil, false
}

func c15SameList(got []interface{}, want []float64) bool {
	if len(got) != len(want) {
		return false
	}
	for i := range want {
		f, ok := got[i].(float64)
		if !ok || f != want[i] {
			return false
		}
	}
	return true
}

// VerifH_C15_HOF: $map / $filter / $reduce / $single on arrays of N symbolic numbers (and a scalar in
// array position), with lambdas of arity 0..3.
func VerifH_C15_HOF() {
	n := verifChoose(verifParam("N", 3) + 1)
	fs, arr := c15Array(n)
	var in interface{} = arr
	if n == 1 && verifBool() {
		in = fs[0] // a non-array argument counts as a one-member array
	}
	doc := map[string]interface{}{"a": in}
	which := verifChoose(10)
	if which == 9 {
		// an empty array literal (unlike an empty input member) is a value: the seed is returned and
		// the function is never called
		seed := hFinite()
		c15ExpectNumber(hEval(`$reduce([], function($x,$y){$x.nope.(1/0)}, s)`, map[string]interface{}{"s": seed}), seed, "reduce-empty-returns-seed")
		verifAssert(hEval(`$reduce([], function($x,$y){$x + $y})`, doc).kind == oUndefined, "reduce-empty-unseeded-no-value")
		return
	}
	if n == 0 && which >= 5 {
		// an empty array input is 'no value' (C01), and a missing first argument makes these
		// functions yield no value before they look at the function argument
		got := hEval([]string{`$reduce(a, function($x,$y){$x - $y})`, `$reduce(a, function($x,$y){$x - $y}, 10)`, `$reduce(a, function($x){$x})`, `$single(a, function($v){$v > 0})`}[which-5], doc)
		verifAssert(got.kind == oUndefined, "missing-array-argument-no-value")
		return
	}
	switch which {
	case 0: // map, arity 1: value
		l, ok := c15List(hEval(`$map(a, function($v){$v})`, doc))
		verifAssert(ok && c15SameList(l, fs), "map-values-in-order")
	case 1: // map, arity 2: index
		l, ok := c15List(hEval(`$map(a, function($v,$i){$i})`, doc))
		idx := make([]float64, n)
		for i := range idx {
			idx[i] = float64(i)
		}
		verifAssert(ok && c15SameListNum(l, idx), "map-index")
	case 2: // map, arity 3: whole array
		l, ok := c15List(hEval(`$map(a, function($v,$i,$arr){$count($arr)})`, doc))
		cnt := make([]float64, n)
		for i := range cnt {
			cnt[i] = float64(n)
		}
		verifAssert(ok && c15SameListNum(l, cnt), "map-whole-array")
	case 3: // map drops absent results
		l, ok := c15List(hEval(`$map(a, function($v){$v > 0 ? $v})`, doc))
		var want []float64
		for _, f := range fs {
			if f > 0 {
				want = append(want, f)
			}
		}
		verifAssert(ok && c15SameList(l, want), "map-drops-absent")
	case 4: // filter
		l, ok := c15List(hEval(`$filter(a, function($v){$v > 0})`, doc))
		var want []float64
		for _, f := range fs {
			if f > 0 {
				want = append(want, f)
			}
		}
		verifAssert(ok && c15SameList(l, want), "filter-truthy-members")
	case 5: // reduce without seed: left fold
		got := hEval(`$reduce(a, function($x,$y){$x - $y})`, doc)
		if n == 0 {
			verifAssert(got.kind == oUndefined, "reduce-empty-no-value")
			return
		}
		acc := fs[0]
		for _, f := range fs[1:] {
			acc = acc - f
		}
		c15ExpectNumber(got, acc, "reduce-left-fold")
	case 6: // reduce with seed
		got := hEval(`$reduce(a, function($x,$y){$x - $y}, 10)`, doc)
		acc := 10.0
		for _, f := range fs {
			acc = acc - f
		}
		c15ExpectNumber(got, acc, "reduce-seeded-left-fold")
	case 7: // reduce needs a two-parameter function
		got := hEval(`$reduce(a, function($x){$x})`, doc)
		verifAssert(got.kind == oOtherError, "reduce-arity-error")
	case 8: // single
		got := hEval(`$single(a, function($v){$v > 0})`, doc)
		cnt := 0
		var the float64
		for _, f := range fs {
			if f > 0 {
				cnt++
				the = f
			}
		}
		if cnt == 1 {
			verifAssert(got.kind == oValue, "single-unique-found")
			if got.kind == oValue {
				f, ok := got.val.(float64)
				verifAssert(ok && f == the, "single-unique-value")
			}
		} else {
			verifAssert(got.kind == oOtherError, "single-none-or-several-is-error")
		}
	}
}

func c15SameListNum(got []interface{}, want []float64) bool {
	if len(got) != len(want) {
		return false
	}
	for i := range want {
		switch x := got[i].(type) {
		case float64:
			if x != want[i] {
				return false
			}
		case int:
			if float64(x) != want[i] {
				return false
			}
		default:
			return false
		}
	}
	return true
}

// c15ExpectNumber: the outcome is the number want; a non-finite fold is an error instead.
func c15ExpectNumber(got hOutcome, want float64, id string) {
	if want != want || want-want != 0 { // NaN or Inf
		verifAssert(got.kind == oEvalError, id+"-nonfinite-is-error")
		return
	}
	verifAssert(got.kind == oValue, id+"-value")
	if got.kind == oValue {
		f, ok := got.val.(float64)
		verifAssert(ok && f == want, id)
	}
}

// VerifH_C15_Arrays: $append, $reverse, $zip, $count on arrays (and scalars) of symbolic numbers.
func VerifH_C15_Arrays() {
	n := verifChoose(verifParam("N", 3) + 1)
	m := verifChoose(verifParam("M", 2) + 1)
	fa, aa := c15Array(n)
	fb, ab := c15Array(m)
	doc := map[string]interface{}{"a": aa, "b": ab}
	switch verifChoose(6) {
	case 5:
		// an empty argument in any position caps the number of pairs at zero
		e := []string{`$zip([], a)`, `$zip(a, [])`, `$zip(a, [], b)`, `$zip([], [], a)`, `$zip([], b, a)`, `$zip([])`, `$count($zip([], 1))`}[verifChoose(7)]
		got := hEval(e, doc)
		switch x := got.val.(type) {
		case []interface{}:
			verifAssert(got.kind == oValue && len(x) == 0, "zip-empty-argument-no-pairs")
		case int:
			verifAssert(got.kind == oValue && x == 0, "zip-empty-argument-no-pairs")
		default:
			verifAssert(got.kind == oUndefined, "zip-empty-argument-no-pairs")
		}
	case 0:
		l, ok := c15List(hEval(`$append(a, b)`, doc))
		verifAssert(ok && c15SameList(l, append(append([]float64{}, fa...), fb...)), "append-concatenates")
	case 1:
		l, ok := c15List(hEval(`$reverse(a)`, doc))
		rev := make([]float64, n)
		for i := range fa {
			rev[n-1-i] = fa[i]
		}
		verifAssert(ok && c15SameList(l, rev), "reverse")
	case 2:
		got := hEval(`$zip(a, b)`, doc)
		verifAssert(got.kind == oValue, "zip-evaluates")
		if got.kind != oValue {
			return
		}
		pairs, ok := got.val.([]interface{})
		k := n
		if m < k {
			k = m
		}
		verifAssert(ok && len(pairs) == k, "zip-to-shortest")
		if ok && len(pairs) == k {
			for i := 0; i < k; i++ {
				p, ok := pairs[i].([]interface{})
				verifAssert(ok && c15SameList(p, []float64{fa[i], fb[i]}), "zip-pairs")
			}
		}
	case 3:
		got := hEval(`$count(a)`, doc)
		verifAssert(got.kind == oValue && reflect.DeepEqual(got.val, n), "count")
	case 4:
		// a scalar counts as a one-member array
		if n >= 1 {
			d2 := map[string]interface{}{"a": fa[0], "b": ab}
			l, ok := c15List(hEval(`$append(a, b)`, d2))
			verifAssert(ok && c15SameList(l, append([]float64{fa[0]}, fb...)), "append-scalar")
			got := hEval(`$count(a)`, d2)
			verifAssert(got.kind == oValue && reflect.DeepEqual(got.val, 1), "count-scalar")
		}
	}
}

// VerifH_C15_Aggregates: $sum, $max, $min, $average.
func VerifH_C15_Aggregates() {
	n := verifChoose(verifParam("N", 3) + 1)
	fs, arr := c15Array(n)
	doc := map[string]interface{}{"a": arr}
	which := verifChoose(5)
	if which == 4 {
		// non-numeric members are an error
		bads := [][]interface{}{{hFinite(), "x"}, {"x", hFinite()}, {"x"}, {true}, {"5", 1.0, 2.0}, {map[string]interface{}{"a": 1.0}, 3.0}, {1.0, 2.0, []interface{}{3.0}}, {hFinite(), true, 0.0}}
		bad := bads[verifChoose(len(bads))]
		f := []string{"$sum(a)", "$max(a)", "$min(a)", "$average(a)"}[verifChoose(4)]
		got := hEval(f, map[string]interface{}{"a": bad})
		verifAssert(got.kind == oOtherError, "aggregate-non-numeric-is-error")
		return
	}
	if n == 0 {
		f := []string{"$max(a)", "$min(a)", "$average(a)"}[verifChoose(3)]
		got := hEval(f, doc)
		verifAssert(got.kind == oUndefined, "aggregate-empty-no-value")
		return
	}
	sum := 0.0
	max, min := fs[0], fs[0]
	for _, f := range fs {
		sum += f
		if f > max {
			max = f
		}
		if f < min {
			min = f
		}
	}
	switch which {
	case 0:
		c15ExpectFinite(hEval(`$sum(a)`, doc), sum, "sum")
	case 1:
		c15ExpectFinite(hEval(`$max(a)`, doc), max, "max")
	case 2:
		c15ExpectFinite(hEval(`$min(a)`, doc), min, "min")
	case 3:
		c15ExpectFinite(hEval(`$average(a)`, doc), sum/float64(n), "average")
	}
}

// c15ExpectFinite: the aggregate equals want when want is finite (an overflowing sum is outside this
// check: see C10 for the finiteness of results).
func c15ExpectFinite(got hOutcome, want float64, id string) {
	if want != want || want-want != 0 {
		return
	}
	verifAssert(got.kind == oValue, id+"-value")
	if got.kind == oValue {
		f, ok := got.val.(float64)
		verifAssert(ok && f == want, id)
	}
}

// VerifH_C15_Distinct: keeps the first occurrence of each distinct value; 1 and "1" stay distinct,
// and so do {"a":1} and {"a":"1"}; nested arrays are compared by value.
func VerifH_C15_Distinct() {
	switch verifChoose(4) {
	case 0: // numbers with possible duplicates
		n := verifChoose(verifParam("N", 3) + 1)
		fs, arr := c15Array(n)
		l, ok := c15List(hEval(`$distinct(a)`, map[string]interface{}{"a": arr}))
		var want []float64
		for i, f := range fs {
			dup := false
			for j := 0; j < i; j++ {
				if fs[j] == f {
					dup = true
				}
			}
			if !dup {
				want = append(want, f)
			}
		}
		if n >= 2 {
			verifAssert(ok && c15SameList(l, want), "distinct-first-occurrences")
		}
	case 1: // value-equal-but-kind-different members stay distinct
		got := hEval(`$distinct([1, "1", true, 1, "1"])`, nil)
		verifAssert(got.kind == oValue && reflect.DeepEqual(got.val, []interface{}{1.0, "1", true}), "distinct-kinds")
	case 2: // objects compared by value
		got := hEval(`$count($distinct([{"a":1}, {"a":"1"}, {"a":1}]))`, nil)
		verifAssert(got.kind == oValue && reflect.DeepEqual(got.val, 2), "distinct-objects-by-value")
	case 3: // nested arrays compared by value
		got := hEval(`$count($distinct([[1],[1],[2]]))`, nil)
		verifAssert(got.kind == oValue && reflect.DeepEqual(got.val, 2), "distinct-arrays-by-value")
	}
}

// VerifH_C15_Shuffle: $shuffle returns a permutation for every sequence of random draws
// (rand.Intn is a fresh symbolic value in range on each call).
func VerifH_C15_Shuffle() {
	n := verifChoose(verifParam("N", 3) + 1)
	arr := make([]interface{}, n)
	for i := range arr {
		arr[i] = float64(i)
	}
	l, ok := c15List(hEval(`$shuffle(a)`, map[string]interface{}{"a": arr}))
	verifAssert(ok && len(l) == n, "shuffle-length")
	if !ok || len(l) != n {
		return
	}
	seen := make([]bool, n)
	for _, e := range l {
		f, ok := e.(float64)
		verifAssert(ok && f >= 0 && int(f) < n && !seen[int(f)], "shuffle-permutation")
		if ok && f >= 0 && int(f) < n {
			seen[int(f)] = true
		}
	}
}
