//go:build verif

package jsonata

import "time"

// VerifH_C19_Clock: within one evaluation every $millis() denotes one and the same instant, which
// lies between the wall-clock readings taken before and after Eval (the clock is an arbitrary
// non-decreasing sequence of readings).
func VerifH_C19_Clock() {
	e := MustCompile(`[$millis(), $millis(), $millis() = $millis()]`)
	before := time.Now()
	v, err := e.Eval(nil)
	after := time.Now()
	verifAssert(err == nil, "clock-eval-ok")
	arr, ok := v.([]interface{})
	verifAssert(ok && len(arr) == 3, "clock-shape")
	if !ok || len(arr) != 3 {
		return
	}
	m1, ok1 := arr[0].(int64)
	m2, ok2 := arr[1].(int64)
	same, ok3 := arr[2].(bool)
	verifAssert(ok1 && ok2 && ok3, "clock-types")
	verifAssert(m1 == m2 && same, "one-instant-per-evaluation")
	// The bracketing by the readings before and after Eval mixes 64-bit multiplication/division with
	// float conversions; no installed solver decided it (unknown after 30 s), so it is checked on a
	// concrete, strictly increasing clock only (parameter CONCRETECLOCK=1, see specs).
	if verifParam("CONCRETECLOCK", 0) == 1 {
		lo := before.Unix()*1000 + int64(before.Nanosecond())/1000000
		hi := after.Unix()*1000 + int64(after.Nanosecond())/1000000
		verifAssert(lo <= m1 && m1 <= hi, "instant-within-eval")
	}
}
