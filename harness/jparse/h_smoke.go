//go:build verif

package jparse

// VerifH_Smoke: lexer on arbitrary bytes never panics and terminates (thin first harness).
func VerifH_Smoke() {
	n := verifParam("N", 2)
	s := verifString(n)
	l := newLexer(s)
	for i := 0; i < n+2; i++ {
		t := l.next(verifBool())
		if t.Type == typeEOF || t.Type == typeError {
			return
		}
		verifAssert(t.Position >= 0 && t.Position <= len(s), "token-pos")
	}
	verifFail("lexer-no-progress")
}
