//go:build verif

package jparse

// ---------------------------------------------------------------------------------------------
// C04 — the parse is fixed by precedence, associativity and parentheses.
// ---------------------------------------------------------------------------------------------

// The 23 infix/postfix operator tokens with the precedence rows as worded in the statement
// (higher number binds tighter).
type c04Op struct {
	text  string // operator spelling
	prec  int
	close string // closing text for bracket-like operators ("" = plain binary)
	open  string // text emitted for the operator itself
	right bool   // right associative
}

var c04Ops = []c04Op{
	{text: "(", prec: 10, open: "(", close: ")"},
	{text: "[", prec: 10, open: "[", close: "]"},
	{text: ".", prec: 9, open: "."},
	{text: "{", prec: 8, open: `{"k":`, close: "}"},
	{text: "*", prec: 7, open: "*"},
	{text: "/", prec: 7, open: "/"},
	{text: "%", prec: 7, open: "%"},
	{text: "+", prec: 6, open: "+"},
	{text: "-", prec: 6, open: "-"},
	{text: "&", prec: 6, open: "&"},
	{text: "=", prec: 5, open: "="},
	{text: "!=", prec: 5, open: "!="},
	{text: "<", prec: 5, open: "<"},
	{text: "<=", prec: 5, open: "<="},
	{text: ">", prec: 5, open: ">"},
	{text: ">=", prec: 5, open: ">="},
	{text: "in", prec: 5, open: " in "},
	{text: "^", prec: 5, open: "^(", close: ")"},
	{text: "~>", prec: 5, open: "~>"},
	{text: "and", prec: 4, open: " and "},
	{text: "or", prec: 3, open: " or "},
	{text: "?", prec: 2, open: "?", close: ":"},
	{text: ":=", prec: 1, open: ":=", right: true},
}

// reference tree
type c04Tree struct {
	op       string
	leaf     string
	kids     []*c04Tree
	illegal  bool
}

func (t *c04Tree) String() string {
	if t.op == "" {
		return t.leaf
	}
	s := "(" + t.op
	for _, k := range t.kids {
		s += " " + k.String()
	}
	return s + ")"
}

type c04Chain struct {
	operands []string // n+1 operands (+1 extra per '?')
	ops      []int    // n operator indexes
}

// c04Ref is a precedence-climbing parser over the chain, driven only by c04Ops.
type c04Ref struct {
	c       *c04Chain
	opPos   int // next operator
	leafPos int // next operand
	stops   []string
}

func (r *c04Ref) operand() *c04Tree {
	t := &c04Tree{leaf: r.c.operands[r.leafPos]}
	r.leafPos++
	return t
}

// parse(minPrec): operators with prec > minPrec are absorbed; a bracket-like operator's inner
// expression extends to its closer, i.e. over all remaining operators of the chain that the closer
// encloses. Chains are generated so that every bracket-like operator encloses exactly one operand
// and the '?' encloses one operand as its then-branch.
func (r *c04Ref) parse(minPrec int) *c04Tree {
	lhs := r.operand()
	for r.opPos < len(r.c.ops) {
		op := c04Ops[r.c.ops[r.opPos]]
		if op.prec <= minPrec {
			break
		}
		r.opPos++
		switch {
		case op.text == "?":
			then := r.operand()
			els := r.parse(0) // else branch groups to the right and takes everything
			lhs = &c04Tree{op: "?", kids: []*c04Tree{lhs, then, els}}
		case op.close != "":
			inner := r.operand()
			lhs = &c04Tree{op: op.text, kids: []*c04Tree{lhs, inner}}
		case op.right:
			rhs := r.parse(op.prec - 1)
			n := &c04Tree{op: op.text, kids: []*c04Tree{lhs, rhs}}
			if lhs.op != "" || len(lhs.leaf) == 0 || lhs.leaf[0] != '$' {
				n.illegal = true
			}
			lhs = n
		default:
			rhs := r.parse(op.prec)
			lhs = &c04Tree{op: op.text, kids: []*c04Tree{lhs, rhs}}
		}
	}
	return lhs
}

func c04Illegal(t *c04Tree) bool {
	if t.illegal {
		return true
	}
	for _, k := range t.kids {
		if c04Illegal(k) {
			return true
		}
	}
	return false
}

// c04Canon prints the raw (pre-optimisation) syntax tree in the same canonical form.
func c04Canon(n Node) string {
	switch n := n.(type) {
	case *VariableNode:
		return "$" + n.Name
	case *NameNode:
		return n.Value
	case *NumberNode:
		return n.String()
	case *StringNode:
		return n.String()
	case *RegexNode:
		return n.String()
	case *BlockNode:
		if len(n.Exprs) == 1 {
			return c04Canon(n.Exprs[0])
		}
		return "<block>"
	case *NumericOperatorNode:
		return "(" + n.Type.String() + " " + c04Canon(n.LHS) + " " + c04Canon(n.RHS) + ")"
	case *ComparisonOperatorNode:
		return "(" + n.Type.String() + " " + c04Canon(n.LHS) + " " + c04Canon(n.RHS) + ")"
	case *BooleanOperatorNode:
		return "(" + n.Type.String() + " " + c04Canon(n.LHS) + " " + c04Canon(n.RHS) + ")"
	case *StringConcatenationNode:
		return "(& " + c04Canon(n.LHS) + " " + c04Canon(n.RHS) + ")"
	case *dotNode:
		return "(. " + c04Canon(n.lhs) + " " + c04Canon(n.rhs) + ")"
	case *FunctionApplicationNode:
		return "(~> " + c04Canon(n.LHS) + " " + c04Canon(n.RHS) + ")"
	case *AssignmentNode:
		return "(:= $" + n.Name + " " + c04Canon(n.Value) + ")"
	case *ConditionalNode:
		if n.Else == nil {
			return "(? " + c04Canon(n.If) + " " + c04Canon(n.Then) + ")"
		}
		return "(? " + c04Canon(n.If) + " " + c04Canon(n.Then) + " " + c04Canon(n.Else) + ")"
	case *predicateNode:
		return "([ " + c04Canon(n.lhs) + " " + c04Canon(n.rhs) + ")"
	case *GroupNode:
		if n.ObjectNode != nil && len(n.Pairs) == 1 {
			return "({ " + c04Canon(n.Expr) + " " + c04Canon(n.Pairs[0][1]) + ")"
		}
		return "<group>"
	case *FunctionCallNode:
		if len(n.Args) == 1 {
			return "(( " + c04Canon(n.Func) + " " + c04Canon(n.Args[0]) + ")"
		}
		return "<call>"
	case *SortNode:
		if len(n.Terms) == 1 {
			return "(^ " + c04Canon(n.Expr) + " " + c04Canon(n.Terms[0].Expr) + ")"
		}
		return "<sort>"
	}
	return "<?>"
}

var (
	c04Operand0 = []string{"$a", "in"}
	c04Operand1 = []string{"$b", "1", "/x/", "b"}
	c04Operand2 = []string{"$c", "or"}
	c04Operand3 = []string{"$d", "and"}
)

// c04Build chooses a chain of n operators and returns it with its text. With parens=true one
// sub-chain [i..j] of operands is additionally wrapped in redundant-or-overriding parentheses and the
// reference treats that sub-chain as one operand.
func c04Text(c *c04Chain, ws [][2]string) string {
	s := c.operands[0]
	k := 1
	for i, oi := range c.ops {
		op := c04Ops[oi]
		s += ws[i][0] + op.open + ws[i][1] + c.operands[k]
		k++
		if op.close != "" {
			s += op.close
			if op.text == "?" {
				s += c.operands[k]
				k++
			}
		}
	}
	return s
}

func c04Choose(n int) *c04Chain {
	return c04ChooseM(n, [][]string{c04Operand0, c04Operand1, c04Operand2, c04Operand3})
}

func c04ChooseM(n int, menus [][]string) *c04Chain {
	c := &c04Chain{}
	c.operands = append(c.operands, menus[0][verifChoose(len(menus[0]))])
	for i := 0; i < n; i++ {
		oi := verifChoose(len(c04Ops))
		c.ops = append(c.ops, oi)
		m := menus[(i+1)%len(menus)]
		if i+1 < len(menus) {
			m = menus[i+1]
		}
		c.operands = append(c.operands, m[verifChoose(len(m))])
		if c04Ops[oi].text == "?" {
			c.operands = append(c.operands, "$e")
		}
	}
	return c
}

// The reference climbs over the flat chain, but a bracket-like operator's operand list in the text is
// op operand close: the reference must consume exactly that. The '?' consumes then-operand, ':' and
// then parses the else branch from the following operand onwards.
func c04Reference(c *c04Chain) *c04Tree {
	r := &c04Ref{c: c}
	return r.parse(0)
}

func c04Check(c *c04Chain, text string) {
	verifNote(text)
	want := c04Reference(c)
	p := newParser(text)
	var got Node
	var perr interface{}
	func() {
		defer func() { perr = recover() }()
		got = p.parseExpression(0)
	}()
	if c04Illegal(want) {
		_, isErr := perr.(*Error)
		verifAssert(isErr, "c04-illegal-assignment-rejected")
		return
	}
	// '/' right after the ')' of a sort clause must be division (an operand precedes it); kept under
	// its own id because the port lexes a regular expression there (known finding)
	id := "c04-parses"
	for i := 0; i+1 < len(c.ops); i++ {
		if c04Ops[c.ops[i]].text == "^" && c04Ops[c.ops[i+1]].text == "/" {
			id = "c04-division-after-sort-clause"
		}
	}
	verifAssert(perr == nil, id)
	if perr != nil {
		return
	}
	verifAssert(p.token.Type == typeEOF, "c04-consumes-all")
	verifAssert(c04Canon(got) == want.String(), "c04-structure")
}

// VerifH_C04_Chain: every chain of K operators from the complete operator set.
func VerifH_C04_Chain() {
	k := verifParam("K", 2)
	c := c04Choose(k)
	ws := make([][2]string, k)
	for i := range ws {
		ws[i] = [2]string{" ", " "}
	}
	c04Check(c, c04Text(c, ws))
}

// VerifH_C04_Whitespace: optional whitespace between tokens does not change the parse.
func VerifH_C04_Whitespace() {
	k := verifParam("K", 2)
	c := c04Choose(k)
	ws := make([][2]string, k)
	for i := range ws {
		a := verifString(verifParam("W", 1))
		b := verifString(verifParam("W", 1))
		for _, s := range []string{a, b} {
			for j := 0; j < len(s); j++ {
				verifAssume(s[j] == ' ' || s[j] == '\t' || s[j] == '\n' || s[j] == '\r' || s[j] == '\v')
			}
		}
		ws[i] = [2]string{" " + a, b + " "}
	}
	c04Check(c, c04Text(c, ws))
}

// VerifH_C04_NoSpace: the same chains written without any whitespace between tokens (the keyword
// operators keep the blanks that delimit them) parse to the same tree; operands include the bare
// context variable $, whose name ends where an operator such as != or ~> begins.
func VerifH_C04_NoSpace() {
	k := verifParam("K", 2)
	c := c04ChooseM(k, [][]string{{"$a", "$", "in"}, {"$b", "$", "b", "/x/"}, {"$c", "$", "or"}, {"$d", "and"}})
	ws := make([][2]string, k)
	for i := range ws {
		ws[i] = [2]string{"", ""}
	}
	c04Check(c, c04Text(c, ws))
}

// VerifH_C04_Parens: parentheses override precedence and associativity: wrapping the right-hand pair
// of a 2-operator chain makes it one operand.
func VerifH_C04_Parens() {
	c := c04Choose(2)
	o1, o2 := c04Ops[c.ops[0]], c04Ops[c.ops[1]]
	if o1.close != "" || o2.close != "" {
		// bracket-like operators already delimit their operand; covered by VerifH_C04_Chain
		verifAssume(false)
	}
	text := c.operands[0] + " " + o1.open + " (" + c.operands[1] + " " + o2.open + " " + c.operands[2] + ")"
	inner := &c04Tree{op: o2.text, kids: []*c04Tree{{leaf: c.operands[1]}, {leaf: c.operands[2]}}}
	want := &c04Tree{op: o1.text, kids: []*c04Tree{{leaf: c.operands[0]}, inner}}
	illegal := (o1.text == ":=" && c.operands[0][0] != '$') || (o2.text == ":=" && c.operands[1][0] != '$')
	p := newParser(text)
	var got Node
	var perr interface{}
	func() {
		defer func() { perr = recover() }()
		got = p.parseExpression(0)
	}()
	if illegal {
		_, isErr := perr.(*Error)
		verifAssert(isErr, "c04-paren-illegal-assignment-rejected")
		return
	}
	// a regular expression literal right after the '(' of a parenthesised expression: an operand is
	// expected there, so '/' must start a regex; own id because the port treats it as division
	// (known finding)
	pid := "c04-paren-parses"
	if c.operands[1] == "/x/" {
		pid = "c04-regex-after-open-paren"
	}
	verifAssert(perr == nil && p.token.Type == typeEOF, pid)
	if perr == nil {
		verifAssert(c04Canon(got) == want.String(), "c04-paren-structure")
	}
	// redundant parentheses around the left pair do not change the tree of the plain chain
	if o1.prec >= o2.prec && !o2.right {
		plain := c04Reference(c)
		text2 := "(" + c.operands[0] + " " + o1.open + " " + c.operands[1] + ") " + o2.open + " " + c.operands[2]
		p2 := newParser(text2)
		var got2 Node
		var perr2 interface{}
		func() {
			defer func() { perr2 = recover() }()
			got2 = p2.parseExpression(0)
		}()
		if !c04Illegal(plain) && perr2 == nil {
			verifAssert(c04Canon(got2) == plain.String(), "c04-redundant-parens")
		}
	}
}
