//go:build verif

package jparse

// ---------------------------------------------------------------------------------------------
// C08 — Compile is total.
// ---------------------------------------------------------------------------------------------

// VerifH_C08_LexStep: one inductive step of the lexer from an arbitrary state that satisfies the
// invariant  0 <= start = current <= length, err = nil  (width is arbitrary: every backup() in
// next() is preceded by a nextRune() that overwrites it). Post-condition: no panic, terminates,
// the invariant is re-established or an error token is returned, and the scanner made progress.
// One step covers token histories of any length.
func VerifH_C08_LexStep() {
	n := verifParam("N", 3)
	s := verifString(n)
	p := verifChoose(len(s) + 1)
	l := lexer{input: s, length: len(s), start: p, current: p, width: verifInt()}
	allowRegex := verifBool()
	t := l.next(allowRegex)
	if t.Type == typeError {
		verifAssert(l.err != nil, "error-token-has-error")
		e, ok := l.err.(*Error)
		verifAssert(ok && e != nil, "lexer-error-is-*Error")
		verifAssert(errmsgs[e.Type] != "", "lexer-error-type-defined")
		verifAssert(e.Position >= 0 && e.Position <= len(s), "lexer-error-position-inside")
		return
	}
	verifAssert(l.err == nil, "no-error-without-error-token")
	verifAssert(l.start == l.current, "post-start-eq-current")
	verifAssert(l.current >= p && l.current <= len(s), "post-current-in-range")
	verifAssert(t.Position >= p && t.Position <= len(s), "token-position-inside")
	if t.Type == typeEOF {
		verifAssert(l.current == len(s), "eof-only-at-end")
		return
	}
	verifAssert(l.current > p, "progress")
	// token contract used by the parser-level harnesses
	switch t.Type {
	case typeBoolean:
		verifAssert(t.Value == "true" || t.Value == "false", "boolean-token-spelling")
	case typeNumber:
		verifAssert(len(t.Value) > 0 && t.Value[0] >= '0' && t.Value[0] <= '9', "number-token-starts-with-digit")
	case typeName, typeVariable:
		if t.Type == typeName {
			verifAssert(len(t.Value) > 0, "name-token-non-empty")
		}
	}
}

// VerifH_C08_ParseBytes: Parse on every byte string of length <= N (including invalid UTF-8):
// it terminates, does not panic, and returns (node, nil) or (nil, *Error) with a defined error
// type and a position inside the input; a returned expression can be printed.
func VerifH_C08_ParseBytes() {
	n := verifParam("N", 2)
	s := verifString(n)
	c08CheckParse(s)
}

func c08CheckParse(s string) {
	node, err := Parse(s)
	if err != nil {
		verifAssert(node == nil, "error-implies-nil-node")
		e, ok := err.(*Error)
		verifAssert(ok && e != nil, "error-is-*Error")
		verifAssert(errmsgs[e.Type] != "", "error-type-defined")
		verifAssert(e.Position >= 0 && e.Position <= len(s), "error-position-inside")
		return
	}
	verifAssert(node != nil, "nil-error-implies-node")
	_ = node.String()
}

// VerifH_C08_Hole: a concrete context with a symbolic hole (where depth matters).
func VerifH_C08_Hole() {
	n := verifParam("N", 3)
	ctxs := []struct{ pre, post string }{
		{"\"", "\""},                 // string literal body
		{"'", "'"},                   // single-quoted
		{"/", "/"},                   // regex literal
		{"`", "`"},                   // back-quoted name
		{"function($x)<", ">{$x}"},   // lambda signature
		{"1", ""},                    // number followed by bytes
		{"\"\\u", "\""},              // \u escape
		{"$f(", ")"},                 // call
		{"[1", "]"},                  // array
		{"a[", "]"},                  // predicate
		{"{\"a\":", "}"},             // object
		{"a.", ""},                   // path
		{"$x:=", ""},                 // assignment
		{"a^(", ")"},                 // sort
		{"|a|", "|"},                 // transform
		{"function(", "){1}"},        // parameter list
		{"a?", ":b"},                 // conditional
		{"a~>", ""},                  // chain
		// truncated inputs: the text ends inside the construct
		{"function($x)<", ""},
		{"function($x", ""},
		{"\"", ""},
		{"/", ""},
		{"`", ""},
		{"$f(", ""},
		{"[", ""},
		{"{", ""},
		{"a[", ""},
		{"|a|", ""},
		{"a ? ", ""},
	}
	c := verifChoose(len(ctxs))
	hole := verifString(n)
	c08CheckParse(ctxs[c].pre + hole + ctxs[c].post)
}

// VerifH_C08_Params: the signature parser on arbitrary signature text.
func VerifH_C08_Params() {
	n := verifParam("N", 4)
	s := verifString(n)
	ps, err := parseParams(s)
	if err != nil {
		e, ok := err.(*Error)
		verifAssert(ok && e != nil, "params-error-is-*Error")
		verifAssert(errmsgs[e.Type] != "", "params-error-type-defined")
		return
	}
	for _, p := range ps {
		_ = p.String()
	}
}

// VerifH_C08_Unescape: escape decoding on arbitrary string bodies never panics and terminates.
func VerifH_C08_Unescape() {
	n := verifParam("N", 4)
	s := verifString(n)
	r, ok := unescape(s)
	if !ok {
		verifAssert(len(r) > 0, "bad-escape-reported")
	}
}
