//go:build verif

package jparse

import "unicode/utf8"

// ---------------------------------------------------------------------------------------------
// C11 — JSON texts denote themselves (lexical level).
// ---------------------------------------------------------------------------------------------

func c11Hex(c byte) (int, bool) {
	switch {
	case c >= '0' && c <= '9':
		return int(c - '0'), true
	case c >= 'a' && c <= 'f':
		return int(c-'a') + 10, true
	case c >= 'A' && c <= 'F':
		return int(c-'A') + 10, true
	}
	return 0, false
}

func c11U4(s string, i int) (rune, bool) {
	if i+4 > len(s) {
		return 0, false
	}
	r := 0
	for k := 0; k < 4; k++ {
		h, ok := c11Hex(s[i+k])
		if !ok {
			return 0, false
		}
		r = r*16 + h
	}
	return rune(r), true
}

// c11RefUnquote is the RFC 8259 string-body decoder: the eight two-character escapes, \u + exactly
// four hex digits, surrogates only as a high-low pair. ok=false when the body is not a JSON string body.
func c11RefUnquote(s string) (string, bool) {
	out := ""
	for i := 0; i < len(s); {
		c := s[i]
		if c != '\\' {
			out += s[i : i+1]
			i++
			continue
		}
		if i+1 >= len(s) {
			return "", false
		}
		switch s[i+1] {
		case '"':
			out += "\""
		case '\\':
			out += "\\"
		case '/':
			out += "/"
		case 'b':
			out += "\b"
		case 'f':
			out += "\f"
		case 'n':
			out += "\n"
		case 'r':
			out += "\r"
		case 't':
			out += "\t"
		case 'u':
			r, ok := c11U4(s, i+2)
			if !ok {
				return "", false
			}
			i += 6
			if r >= 0xD800 && r <= 0xDBFF {
				if i+6 > len(s) || s[i] != '\\' || s[i+1] != 'u' {
					return "", false
				}
				r2, ok := c11U4(s, i+2)
				if !ok || r2 < 0xDC00 || r2 > 0xDFFF {
					return "", false
				}
				r = 0x10000 + (r-0xD800)<<10 + (r2 - 0xDC00)
				i += 6
			} else if r >= 0xDC00 && r <= 0xDFFF {
				return "", false
			}
			out += string(r)
			continue
		default:
			return "", false
		}
		i += 2
	}
	return out, true
}

// VerifH_C11_Unescape: on every valid UTF-8 string body, unescape accepts exactly the JSON string
// bodies and decodes them as a JSON parser does.
func VerifH_C11_Unescape() {
	n := verifParam("N", 6)
	s := verifString(n)
	verifAssume(utf8.ValidString(s))
	want, ok := c11RefUnquote(s)
	got, gok := unescape(s)
	verifAssert(ok == gok, "unescape-accepts-exactly-json")
	if ok && gok {
		verifAssert(got == want, "unescape-value")
	}
}

// VerifH_C11_Pair: \uXXXX\uYYYY with eight arbitrary bytes in the hex positions.
func VerifH_C11_Pair() {
	var h string
	if verifParam("FULL", 0) == 1 {
		h = verifStringN(8)
	} else {
		firsts := []string{"D83D", "d800", "DBFF", "DC00", "0041", "dfff"}
		h = firsts[verifChoose(len(firsts))] + verifStringN(4)
	}
	s := "\\u" + h[:4] + "\\u" + h[4:]
	want, ok := c11RefUnquote(s)
	got, gok := unescape(s)
	verifAssert(ok == gok, "pair-accepts-exactly-json")
	if ok && gok {
		verifAssert(got == want, "pair-value")
	}
}

// c11NumberPrefix returns the length of the longest prefix of s matching the JSON number grammar
// without the sign: int frac? exp?  (0 if none).
func c11NumberPrefix(s string) int {
	i := 0
	digit := func(k int) bool { return k < len(s) && s[k] >= '0' && s[k] <= '9' }
	if !digit(0) {
		return 0
	}
	if s[0] == '0' {
		i = 1
	} else {
		for digit(i) {
			i++
		}
	}
	if i < len(s) && s[i] == '.' && digit(i+1) {
		i++
		for digit(i) {
			i++
		}
	}
	if i < len(s) && (s[i] == 'e' || s[i] == 'E') {
		j := i + 1
		if j < len(s) && (s[j] == '+' || s[j] == '-') {
			j++
		}
		if digit(j) {
			for digit(j) {
				j++
			}
			i = j
		}
	}
	return i
}

// VerifH_C11_Number: a number token is exactly the longest prefix that is a JSON number.
func VerifH_C11_Number() {
	n := verifParam("N", 5)
	s := verifString(n)
	verifAssume(len(s) > 0 && s[0] >= '0' && s[0] <= '9')
	l := newLexer(s)
	t := l.next(true)
	verifAssert(t.Type == typeNumber, "digit-starts-number")
	want := c11NumberPrefix(s)
	// In a JSON text a number is followed by whitespace, ',', ']', '}' or the end of the text; the
	// claim is about JSON texts, so other continuations (e.g. "2e", "1.", "01") are outside it.
	if want < len(s) {
		c := s[want]
		verifAssume(c == ' ' || c == '\t' || c == '\n' || c == '\r' || c == ',' || c == ']' || c == '}')
	}
	verifAssert(len(t.Value) == want && t.Value == s[:want], "number-token-is-longest-json-number")
}

// VerifH_C11_StringToken: the extent of a string token is that of the JSON string (for both quote
// characters), and 'body' denotes the same value as "body".
func VerifH_C11_StringToken() {
	n := verifParam("N", 4)
	body := verifString(n)
	verifAssume(utf8.ValidString(body))
	q := "\""
	other := "'"
	if verifBool() {
		q, other = other, q
	}
	// reference extent: first unescaped quote
	end := -1
	for i := 0; i < len(body); i++ {
		if body[i] == '\\' {
			i++
			continue
		}
		if body[i:i+1] == q {
			end = i
			break
		}
	}
	verifAssume(end < 0) // body does not contain its own closing quote
	// and does not end in a lone backslash (which would escape the closing quote)
	bs := 0
	for i := len(body) - 1; i >= 0 && body[i] == '\\'; i-- {
		bs++
	}
	verifAssume(bs%2 == 0)
	l := newLexer(q + body + q)
	t := l.next(true)
	verifAssert(t.Type == typeString && t.Value == body, "string-token-extent")
	t2 := l.next(true)
	verifAssert(t2.Type == typeEOF, "string-token-consumes-closing-quote")
	// same denotation for the other quote character when the body has neither quote
	hasQuote := false
	for i := 0; i < len(body); i++ {
		if body[i] == '"' || body[i] == '\'' {
			hasQuote = true
		}
	}
	if !hasQuote {
		l2 := newLexer(other + body + other)
		u := l2.next(true)
		verifAssert(u.Type == typeString && u.Value == t.Value, "quote-character-irrelevant")
	}
}

// VerifH_C17_RegexToken: a regex literal /body/flags becomes the token "(?flags)body"; bracket depth
// and \/ are honoured; an unterminated literal is an error token.
func VerifH_C17_RegexToken() {
	body := verifString(verifParam("N", 3))
	flags := verifString(verifParam("F", 2))
	// reference scan of the body: no unescaped '/' at depth 0, no newline, escapes take one char
	depth := 0
	ok := true
	for i := 0; i < len(body); i++ {
		switch body[i] {
		case '\\':
			i++
			if i >= len(body) || body[i] == '\n' {
				ok = false
			}
			if i >= len(body) {
				i = len(body) - 1
			}
		case '(', '[', '{':
			depth++
		case ')', ']', '}':
			depth--
		case '/':
			if depth == 0 {
				ok = false
			}
		case '\n':
			ok = false
		}
		if body[i] >= 0x80 {
			ok = false // keep to ASCII bodies
		}
		if !ok {
			break
		}
	}
	verifAssume(ok && depth == 0)
	for i := 0; i < len(flags); i++ {
		verifAssume(flags[i] == 'i' || flags[i] == 'm' || flags[i] == 's')
	}
	l := newLexer("/" + body + "/" + flags)
	t := l.next(true)
	verifAssert(t.Type == typeRegex, "regex-token")
	want := body
	if flags != "" {
		want = "(?" + flags + ")" + body
	}
	verifAssert(t.Value == want, "regex-token-value")
	verifAssert(l.next(true).Type == typeEOF, "regex-token-consumes-literal")
}
