//go:build verif

package jlib

import (
	"reflect"
	"strings"
	"unicode/utf8"

	"github.com/blues/jsonata-go/jtypes"
)

// ---------------------------------------------------------------------------------------------
// C16 — string functions work on code points; inverse laws.
// ---------------------------------------------------------------------------------------------

// c16String returns an arbitrary valid UTF-8 string of at most n bytes.
func c16String(n int) string {
	s := verifString(n)
	verifAssume(utf8.ValidString(s))
	return s
}

// c16Offsets returns the byte offsets of the code point boundaries of s (len = runes+1).
func c16Offsets(s string) []int {
	offs := []int{0}
	for i := 0; i < len(s); {
		_, w := utf8.DecodeRuneInString(s[i:])
		i += w
		offs = append(offs, i)
	}
	return offs
}

func c16OptInt(set bool, n int) jtypes.OptionalInt {
	if set {
		return jtypes.NewOptionalInt(n)
	}
	return jtypes.OptionalInt{}
}

func c16OptString(set bool, s string) jtypes.OptionalString {
	if set {
		return jtypes.NewOptionalString(s)
	}
	return jtypes.OptionalString{}
}

// VerifH_C16_Substring: $substring is the code-point slice; negative start counts from the end.
func VerifH_C16_Substring() {
	s := c16String(verifParam("N", 4))
	start := verifInt()
	hasLen := verifBool()
	length := 0
	if hasLen {
		length = verifInt()
	}
	got := Substring(s, start, c16OptInt(hasLen, length))
	offs := c16Offsets(s)
	n := len(offs) - 1 // code points
	// reference, on code points
	var want string
	switch {
	case hasLen && length <= 0:
		want = ""
	case start >= n:
		want = ""
	default:
		a := start
		if a < 0 {
			a += n
			if a < 0 {
				a = 0
			}
		}
		b := n
		if hasLen && length < n-a {
			b = a + length
		}
		want = s[offs[a]:offs[b]]
	}
	verifAssert(got == want, "substring")
}

// VerifH_C16_Pad: pads to exactly |width| code points by cycling the pad string.
func VerifH_C16_Pad() {
	s := c16String(verifParam("N", 3))
	width := verifInt()
	verifAssume(width >= -verifParam("W", 6) && width <= verifParam("W", 6))
	hasPad := verifBool()
	pad := ""
	if hasPad {
		pad = c16String(verifParam("P", 2))
	}
	got := Pad(s, width, c16OptString(hasPad, pad))
	n := utf8.RuneCountInString(s)
	aw := width
	if aw < 0 {
		aw = -aw
	}
	if aw <= n {
		verifAssert(got == s, "pad-no-op")
		return
	}
	if pad == "" {
		pad = " "
	}
	// reference: cycle the pad string's code points
	po := c16Offsets(pad)
	pn := len(po) - 1
	padding := ""
	for i := 0; i < aw-n; i++ {
		k := i % pn
		padding += pad[po[k]:po[k+1]]
	}
	want := s + padding
	if width < 0 {
		want = padding + s
	}
	verifAssert(got == want, "pad")
	verifAssert(utf8.RuneCountInString(got) == aw, "pad-length-law")
}

// VerifH_C16_BeforeAfter: split at the first occurrence; unchanged when absent; law.
func VerifH_C16_BeforeAfter() {
	s := c16String(verifParam("N", 4))
	c := c16String(verifParam("P", 2))
	before := SubstringBefore(s, c)
	after := SubstringAfter(s, c)
	// reference search for the first occurrence (byte-wise == code-point-wise on valid UTF-8)
	first := -1
	for i := 0; i+len(c) <= len(s); i++ {
		if s[i:i+len(c)] == c {
			first = i
			break
		}
	}
	if first < 0 {
		verifAssert(before == s && after == s, "before-after-absent")
		return
	}
	verifAssert(before == s[:first], "before")
	verifAssert(after == s[first+len(c):], "after")
	verifAssert(before+c+after == s, "before-after-law")
}

func c16SC(s string) StringCallable { return StringCallable(reflect.ValueOf(s)) }

// VerifH_C16_SplitJoin: exhaustive split (per code point for an empty separator), limit, and
// join(split(s,c),c) = s.
func VerifH_C16_SplitJoin() {
	s := c16String(verifParam("N", 4))
	c := c16String(verifParam("P", 2))
	hasLimit := verifBool()
	limit := 0
	if hasLimit {
		limit = verifInt()
	}
	parts, err := Split(s, c16SC(c), c16OptInt(hasLimit, limit))
	if hasLimit && limit < 0 {
		verifAssert(err != nil, "split-negative-limit-error")
		return
	}
	verifAssert(err == nil, "split-no-error")
	// reference
	var want []string
	if c == "" {
		offs := c16Offsets(s)
		for i := 0; i+1 < len(offs); i++ {
			want = append(want, s[offs[i]:offs[i+1]])
		}
	} else {
		pos := 0
		for i := 0; i+len(c) <= len(s); {
			if s[i:i+len(c)] == c {
				want = append(want, s[pos:i])
				i += len(c)
				pos = i
			} else {
				i++
			}
		}
		want = append(want, s[pos:])
	}
	full := want
	if hasLimit && limit < len(want) {
		want = want[:limit]
	}
	verifAssert(len(parts) == len(want), "split-count")
	if len(parts) != len(want) {
		return
	}
	for i := range want {
		verifAssert(parts[i] == want[i], "split-part")
	}
	if !hasLimit {
		arr := make([]interface{}, len(full))
		for i := range full {
			arr[i] = parts[i]
		}
		j, err := Join(reflect.ValueOf(arr), c16OptString(true, c))
		if len(arr) > 0 {
			verifAssert(err == nil && j == s, "join-split-law")
		}
	}
}

// VerifH_C16_ContainsReplace: substring search and left-to-right non-overlapping replacement.
func VerifH_C16_ContainsReplace() {
	s := c16String(verifParam("N", 4))
	c := c16String(verifParam("P", 2))
	r := c16String(verifParam("P", 2))
	hasLimit := verifBool()
	limit := 0
	if hasLimit {
		limit = verifInt()
		verifAssume(limit >= -1 && limit <= 5)
	}
	found := false
	for i := 0; i+len(c) <= len(s); i++ {
		if s[i:i+len(c)] == c {
			found = true
		}
	}
	got, err := Contains(s, c16SC(c))
	verifAssert(err == nil && got == found, "contains")

	out, err := Replace(s, c16SC(c), c16SC(r), c16OptInt(hasLimit, limit))
	if hasLimit && limit < 0 {
		verifAssert(err != nil, "replace-negative-limit-error")
		return
	}
	if c == "" {
		verifAssert(err != nil, "replace-empty-pattern-rejected")
		return
	}
	verifAssert(err == nil, "replace-no-error")
	want := ""
	count := 0
	for i := 0; i < len(s); {
		if i+len(c) <= len(s) && s[i:i+len(c)] == c && (!hasLimit || count < limit) {
			want += r
			i += len(c)
			count++
		} else {
			want += s[i : i+1]
			i++
		}
	}
	verifAssert(out == want, "replace")
}

// VerifH_C16_Base64: decode(encode(s)) = s for every byte string.
func VerifH_C16_Base64() {
	s := verifString(verifParam("N", 4))
	e, err := Base64Encode(s)
	verifAssert(err == nil, "b64-encode-ok")
	verifAssert(len(e) == (len(s)+2)/3*4, "b64-length")
	d, err := Base64Decode(e)
	verifAssert(err == nil, "b64-decode-ok")
	verifAssert(d == s, "b64-roundtrip")
}

// VerifH_C16_URL: decodeUrlComponent(encodeUrlComponent(s)) = s (U+FFFD alone excluded).
func VerifH_C16_URL() {
	s := c16String(verifParam("N", 3))
	verifAssume(s != "�")
	e, err := EncodeURLComponent(s)
	verifAssert(err == nil, "url-encode-ok")
	d, err := DecodeURL(e)
	verifAssert(err == nil, "url-decode-ok")
	verifAssert(d == s, "url-roundtrip")
}

var _ = strings.Index

// VerifH_C16_Trim: $trim collapses whitespace runs to one space and strips both ends. The regexp
// engine cannot be encoded, so the subject strings are enumerated (every string of up to N characters
// over {a, é, space, tab, newline, carriage return}) and run through the repository's own pattern
// natively; what is checked is the pattern and the glue around it, not the engine.
func VerifH_C16_Trim() {
	n := verifParam("N", 4)
	alphabet := []string{"a", "é", " ", "\t", "\n", "\r"}
	l := verifChoose(n + 1)
	s := ""
	for i := 0; i < l; i++ {
		s += alphabet[verifChoose(len(alphabet))]
	}
	got := Trim(s)
	// reference
	want := ""
	pendingSpace := false
	for i := 0; i < len(s); {
		_, w := utf8.DecodeRuneInString(s[i:])
		c := s[i : i+w]
		i += w
		if c == " " || c == "\t" || c == "\n" || c == "\r" {
			pendingSpace = true
			continue
		}
		if pendingSpace && want != "" {
			want += " "
		}
		pendingSpace = false
		want += c
	}
	verifAssert(got == want, "trim")
}
