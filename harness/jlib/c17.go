//go:build verif

package jlib

// ---------------------------------------------------------------------------------------------
// C17 — the $N expansion rule of $replace (package jlib kernel).
// ---------------------------------------------------------------------------------------------

func c17IsDigit(c byte) bool { return c >= '0' && c <= '9' }

// c17RefExpand is the statement's template rule: $0 is the match, $N the N-th group taking the
// longest group number that exists (absent groups empty), $$ a dollar sign, a lone $ stays.
func c17RefExpand(t string, value string, groups []string) string {
	out := ""
	for i := 0; i < len(t); {
		if t[i] != '$' {
			out += t[i : i+1]
			i++
			continue
		}
		i++ // the dollar
		if i >= len(t) {
			out += "$"
			break
		}
		if t[i] == '$' {
			out += "$"
			i++
			continue
		}
		if !c17IsDigit(t[i]) {
			out += "$"
			continue
		}
		if t[i] == '0' {
			out += value
			i++
			continue
		}
		// maximal digit run
		j := i
		for j < len(t) && c17IsDigit(t[j]) {
			j++
		}
		used := 0
		for k := j; k > i; k-- {
			n := 0
			ok := true
			for p := i; p < k; p++ {
				n = n*10 + int(t[p]-'0')
				if n > 1000 {
					ok = false // cannot name an existing group
					break
				}
			}
			if ok && n >= 1 && n <= len(groups) {
				out += groups[n-1]
				used = k - i
				break
			}
		}
		if used == 0 {
			used = 1 // the group does not exist: empty, and one digit is consumed
		}
		i += used
	}
	return out
}

// VerifH_C17_Template: expandReplaceString on every template of <= N bytes over {$, digits, other}
// with G groups, against the rule.
func VerifH_C17_Template() {
	n := verifParam("N", 4)
	t := verifString(n)
	for i := 0; i < len(t); i++ {
		c := t[i]
		verifAssume(c == '$' || c17IsDigit(c) || c == 'x')
	}
	g := verifChoose(verifParam("G", 3) + 2)
	if g > verifParam("G", 3) || g > 12 {
		g = 12 // two-digit group numbers
	}
	names := []string{"<g1>", "<g2>", "<g3>", "<g4>", "<g5>", "<g6>", "<g7>", "<g8>", "<g9>", "<g10>", "<g11>", "<g12>"}
	m := match{value: "<m>", groups: names[:g]}
	got := expandReplaceString(t, m)
	want := c17RefExpand(t, m.value, m.groups)
	verifAssert(got == want, "replace-template-expansion")
}

// VerifH_C17_TemplateLong: a long digit run after $ (the group number must not wrap around).
func VerifH_C17_TemplateLong() {
	d := verifStringN(verifParam("D", 20))
	for i := 0; i < len(d); i++ {
		verifAssume(c17IsDigit(d[i]))
	}
	t := "a$" + d + "b"
	m := match{value: "<m>", groups: []string{"<g1>", "<g2>"}}
	got := expandReplaceString(t, m)
	want := c17RefExpand(t, m.value, m.groups)
	verifAssert(got == want, "replace-template-long-number")
}
