//go:build verif

package jlib

import (
	"time"
)

// ---------------------------------------------------------------------------------------------
// C19 — $fromMillis / $toMillis (arithmetic and time-zone kernels in package jlib).
// ---------------------------------------------------------------------------------------------

const (
	c19MinMS = -30610224000000 // 1000-01-01T00:00:00Z
	c19MaxMS = 253402300799999 // 9999-12-31T23:59:59.999Z
)

// VerifH_C19_RoundTrip: the ms <-> time.Time conversions that $toMillis adds to time.Parse invert each
// other for every instant from year 1000 through year 9999.
func VerifH_C19_RoundTrip() {
	ms := verifInt64()
	verifAssume(ms >= c19MinMS && ms <= c19MaxMS)
	t := msToTime(ms)
	back := timeToMS(t)
	verifAssert(back == ms, "toMillis-inverts-fromMillis")
}

func c19Digit(c byte) bool { return c >= '0' && c <= '9' }

// VerifH_C19_TimeZone: a time zone is accepted exactly when it is a sign and four digits denoting an
// offset within +-14:00 with minutes < 60, and the location has that offset.
func VerifH_C19_TimeZone() {
	s := verifString(verifParam("N", 6))
	loc, err := parseTimeZone(s)
	valid := len(s) == 5 && (s[0] == '+' || s[0] == '-') && c19Digit(s[1]) && c19Digit(s[2]) && c19Digit(s[3]) && c19Digit(s[4])
	hh, mm := 0, 0
	if valid {
		hh = int(s[1]-'0')*10 + int(s[2]-'0')
		mm = int(s[3]-'0')*10 + int(s[4]-'0')
		valid = mm < 60
		// the statement speaks of offsets from -1400 to +1400; whether a well-formed larger
		// offset is accepted is left open
		verifAssume(!valid || hh*60+mm <= 14*60)
	}
	verifAssert((err == nil) == valid, "timezone-accepted-iff-valid")
	if err == nil && valid {
		want := hh*3600 + mm*60
		if s[0] == '-' {
			want = -want
		}
		_, off := time.Unix(0, 0).In(loc).Zone()
		verifAssert(off == want, "timezone-offset")
	}
}
