//go:build verif

package jlib

import (
	"time"

	"github.com/blues/jsonata-go/jtypes"
)

// ---------------------------------------------------------------------------------------------
// C19 — $fromMillis / $toMillis (arithmetic and time-zone kernels in package jlib).
// ---------------------------------------------------------------------------------------------

const (
	c19MinMS = -30610224000000 // 1000-01-01T00:00:00Z
	c19MaxMS = 253402300799999 // 9999-12-31T23:59:59.999Z
)

// VerifH_C19_RoundTrip: the ms <-> time.Time conversions that $toMillis adds to time.Parse invert each
// other for every instant from year 1000 through year 9999.
func VerifH_C19_RoundTrip() {
	ms := verifInt64()
	verifAssume(ms >= c19MinMS && ms <= c19MaxMS)
	t := msToTime(ms)
	back := timeToMS(t)
	verifAssert(back == ms, "toMillis-inverts-fromMillis")
}

func c19Digit(c byte) bool { return c >= '0' && c <= '9' }

// VerifH_C19_TimeZone: a time zone is accepted exactly when it is a sign and four digits denoting an
// offset within +-14:00 with minutes < 60, and the location has that offset.
func VerifH_C19_TimeZone() {
	s := verifString(verifParam("N", 6))
	loc, err := parseTimeZone(s)
	valid := len(s) == 5 && (s[0] == '+' || s[0] == '-') && c19Digit(s[1]) && c19Digit(s[2]) && c19Digit(s[3]) && c19Digit(s[4])
	hh, mm := 0, 0
	if valid {
		hh = int(s[1]-'0')*10 + int(s[2]-'0')
		mm = int(s[3]-'0')*10 + int(s[4]-'0')
		valid = mm < 60
		// the statement speaks of offsets from -1400 to +1400; whether a well-formed larger
		// offset is accepted is left open
		verifAssume(!valid || hh*60+mm <= 14*60)
	}
	verifAssert((err == nil) == valid, "timezone-accepted-iff-valid")
	if err == nil && valid {
		want := hh*3600 + mm*60
		if s[0] == '-' {
			want = -want
		}
		_, off := time.Unix(0, 0).In(loc).Zone()
		verifAssert(off == want, "timezone-offset")
	}
}

// VerifH_C19_TextRoundTrip: $toMillis($fromMillis(ms, picture, tz), picture) = ms through the rendered
// text, for boundary instants of the claimed span, offsets including sub-hour negative ones, the
// default picture and pictures built from the invertible components. Instants are a menu (calendar
// arithmetic is outside what the solvers decide, see DESIGN 0.6); time.Parse is interpreted from its
// SSA like the rest of the code.
func VerifH_C19_TextRoundTrip() {
	instants := []int64{c19MinMS, c19MinMS + 1, -1, 0, 1, 999, 1000, 86399999, 86400000, -86400000, 951782400000 /* 2000-02-29 */, 1522161458123,
		4102444799999 /* 2099-12-31T23:59:59.999 */, -2208988800000 /* 1900-01-01 */, 9223372036854 /* past 2262 */, -9223372036855 /* before 1678 */, c19MaxMS - 999, c19MaxMS}
	offsets := []string{"", "+0000", "-0030", "+0530", "+1400", "-1400", "-0001", "+0959"}
	offMin := []int64{0, 0, -30, 330, 840, -840, -1, 599}
	type pc struct {
		pic   string
		grain int64 // the picture represents instants that are multiples of this many ms
		utc   bool  // no zone in the picture: only UTC renderings are invertible
	}
	pics := []pc{{"", 1, false}, {"[Y0001]-[M01]-[D01]T[H01]:[m01]:[s01].[f001][Z01:01]", 1, false}, {"[Y0001]-[M01]-[D01]T[H01]:[m01]:[s01][Z0101]", 1000, false},
		{"[Y0001]-[M01]-[D01]T[H01]:[m01]:[s01]", 1000, true}, {"[Y0001]-[M01]-[D01]", 86400000, true}, {"[D01]/[M01]/[Y0001] [H01]:[m01]", 60000, true}}
	ms := instants[verifChoose(len(instants))]
	oi := verifChoose(len(offsets))
	off := offsets[oi]
	p := pics[verifChoose(len(pics))]
	if p.utc {
		off, oi = "", 0
	}
	ms -= ((ms % p.grain) + p.grain) % p.grain
	if ms < c19MinMS {
		ms += p.grain
	}
	if local := ms + offMin[oi]*60000; local < c19MinMS || local > c19MaxMS {
		return // the local date has a year outside 1000..9999, which a four-digit year cannot represent
	}
	opt := func(v string) jtypes.OptionalString {
		if v == "" {
			return jtypes.OptionalString{}
		}
		return jtypes.NewOptionalString(v)
	}
	text, err := FromMillis(ms, opt(p.pic), opt(off))
	verifAssert(err == nil, "fromMillis-renders")
	if err != nil {
		return
	}
	back, err := ToMillis(text, opt(p.pic), jtypes.OptionalString{})
	verifAssert(err == nil, "toMillis-parses-what-fromMillis-rendered")
	if err == nil {
		verifAssert(back == ms, "toMillis-inverts-fromMillis-through-text")
	}
}
