//go:build verif

package jlib

import (
	"math"
	"reflect"
	"strconv"

	"github.com/blues/jsonata-go/jtypes"
)

// ---------------------------------------------------------------------------------------------
// C18 — rounding, radix, sqrt/power guards (package jlib kernels).
// ---------------------------------------------------------------------------------------------

// VerifH_C18_Round: $round(x) (no precision: the decimal scaling step is the identity) is x rounded
// half-to-even to an integer, for every double with |x| < 2^52, and never negative zero.
func VerifH_C18_Round() {
	x := verifFloat()
	verifAssume(!math.IsNaN(x) && math.Abs(x) < 4503599627370496.0)
	got := Round(x, jtypes.OptionalInt{})
	want := math.RoundToEven(x)
	verifAssert(got == want, "round-half-even")
	verifAssert(!(got == 0 && math.Signbit(1/got)), "round-no-negative-zero")
	// x is a tie iff 2x is an integer and x is not (doubling is exact)
	verifAssert(isHalfway(x) == (math.Trunc(2*x) == 2*x && math.Trunc(x) != x), "halfway-iff-fraction-is-one-half")
}

// VerifH_C18_Base: $formatBase(x, b) is an error exactly when the rounded base is outside 2..36, and
// otherwise the base-b numeral of x rounded to an integer (checked on a menu of values per base).
func VerifH_C18_Base() {
	if verifChoose(2) == 0 {
		b := verifFloat()
		verifAssume(!math.IsNaN(b) && math.Abs(b) < 1000)
		_, err := FormatBase(255, jtypes.NewOptionalFloat64(b))
		rb := math.RoundToEven(b)
		verifAssert((err != nil) == (rb < 2 || rb > 36), "formatbase-radix-error-iff-outside-2-36")
		return
	}
	type tc struct {
		x    float64
		base float64
		want string
	}
	cases := []tc{{255, 16, "ff"}, {255, 2, "11111111"}, {-255, 16, "-ff"}, {0, 2, "0"}, {2.5, 10, "2"}, {3.5, 10, "4"}, {35, 36, "z"}, {36, 36, "10"}, {1e15, 10, "1000000000000000"}, {7.5, 8, "10"}, {100, 10, "100"}}
	c := cases[verifChoose(len(cases))]
	got, err := FormatBase(c.x, jtypes.NewOptionalFloat64(c.base))
	verifAssert(err == nil && got == c.want, "formatbase-numeral")
	d, err := FormatBase(c.x, jtypes.OptionalFloat64{})
	if c.base == 10 {
		verifAssert(err == nil && d == c.want, "formatbase-default-base-10")
	}
}

// VerifH_C18_SqrtPower: $sqrt and $power never return NaN or an infinity without an error.
func VerifH_C18_SqrtPower() {
	x := verifFloat()
	verifAssume(!math.IsNaN(x) && !math.IsInf(x, 0))
	r, err := Sqrt(x)
	if err == nil {
		verifAssert(!math.IsNaN(r) && !math.IsInf(r, 0), "sqrt-finite-or-error")
		verifAssert(x >= 0, "sqrt-of-negative-is-error")
	} else {
		verifAssert(x < 0, "sqrt-error-only-for-negative")
	}
	y := verifFloat()
	verifAssume(!math.IsNaN(y) && !math.IsInf(y, 0))
	p, perr := Power(x, y)
	if perr == nil {
		verifAssert(!math.IsNaN(p) && !math.IsInf(p, 0), "power-finite-or-error")
	}
}

// c18RefNumber is the statement's grammar: optional minus sign, digits, optional fraction, optional
// exponent.
func c18RefNumber(s string) bool {
	i := 0
	if i < len(s) && s[i] == '-' {
		i++
	}
	digits := func() bool {
		j := i
		for i < len(s) && s[i] >= '0' && s[i] <= '9' {
			i++
		}
		return i > j
	}
	if !digits() {
		return false
	}
	if i < len(s) && s[i] == '.' {
		i++
		if !digits() {
			return false
		}
	}
	if i < len(s) && (s[i] == 'e' || s[i] == 'E') {
		i++
		if i < len(s) && (s[i] == '+' || s[i] == '-') {
			i++
		}
		if !digits() {
			return false
		}
	}
	return i == len(s)
}

// VerifH_C18_NumberGrammar: $number accepts exactly the strings of the grammar (and, among those,
// exactly the ones whose value is in range), for every string of <= N characters over a number-like
// alphabet. The grammar test in the implementation is a regular expression run by the real regexp
// engine, so the strings are enumerated by forking rather than left symbolic.
func VerifH_C18_NumberGrammar() {
	alphabet := []byte{'-', '+', '7', '0', '.', 'e', 'E', ' ', '9'}
	n := verifChoose(verifParam("N", 4) + 1)
	b := make([]byte, n)
	for i := range b {
		b[i] = alphabet[verifChoose(len(alphabet))]
	}
	s := string(b)
	got, err := Number(StringNumberBool(reflect.ValueOf(s)))
	want, perr := strconv.ParseFloat(s, 64)
	if !c18RefNumber(s) {
		verifAssert(err != nil, "number-rejects-strings-outside-the-grammar")
		return
	}
	if perr != nil {
		verifAssert(err != nil, "number-out-of-range-is-an-error")
		return
	}
	verifAssert(err == nil && got == want, "number-accepts-grammar-strings-with-their-value")
}
