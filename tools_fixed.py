#!/usr/bin/env python3
# usage: tools_fixed.py <prop> <harness> <kind> <id> <commit> <what...>   -- appends a "fixed" entry to known_findings.json
import json, sys
prop, harness, kind, fid, commit = sys.argv[1:6]
what = " ".join(sys.argv[6:])
p = '/verif/known_findings.json'
d = json.load(open(p))
d.append({"status": "fixed", "property": prop, "harness": harness, "kind": kind, "id": fid, "site": "", "commit": commit,
          "what": "fixed: property=%s %s %s" % (prop, commit, what)})
json.dump(d, open(p, 'w'), indent=1)
print("recorded", prop, commit)
