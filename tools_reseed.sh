#!/bin/bash
# usage: tools_reseed.sh <name>...   -- re-runs the property's quick check against stored seeded changes (seeded/<name>/patch.diff)
for name in "$@"; do
  prop=${name%%_*}
  dst=/verif/seeded/$name
  git -C /repo diff --quiet || { echo "/repo is dirty"; exit 2; }
  git -C /repo apply $dst/patch.diff || { echo "$name: patch does not apply"; continue; }
  # evidence_backup: the evidence file must keep describing the unchanged tree
  cp /verif/evidence/$prop.json /tmp/evidence_$prop.bak 2>/dev/null
  (cd /verif && ./check $prop quick > $dst/check_output.txt 2>&1); rc=$?
  cp /tmp/evidence_$prop.bak /verif/evidence/$prop.json 2>/dev/null; rm -f /tmp/evidence_$prop.bak
  git -C /repo checkout -q -- .
  if [ $rc -eq 1 ] && grep -q "^VIOLATION property=$prop" $dst/check_output.txt; then detected=yes; else detected="no(rc=$rc)"; fi
  python3 - <<PY
import json
p='$dst/meta.json'
m=json.load(open(p)); m['detected_by_quick_check']='$detected'; json.dump(m,open(p,'w'),indent=1)
PY
  echo "seed $name: detected=$detected"
done
