#!/bin/bash
# usage: tools_reseed_scratch.sh <name>...  -- re-runs the property's quick check against stored seeds in a scratch worktree
# (VERIF_REPO) with a scratch copy of /verif (VERIF_DIR); /repo and /verif/evidence are not touched.
for name in "$@"; do
  prop=${name%%_*}
  dst=/verif/seeded/$name
  sc=/tmp/rs_$name
  git -C /repo worktree remove --force $sc 2>/dev/null
  git -C /repo worktree add -q $sc HEAD || exit 2
  if ! git -C $sc apply $dst/patch.diff; then echo "seed $name: patch does not apply"; git -C /repo worktree remove --force $sc; continue; fi
  vc=/tmp/vcopy_$name
  rm -rf $vc; mkdir -p $vc
  rsync -a --exclude out --exclude .git --exclude seeded /verif/ $vc/
  (cd $vc && VERIF_DIR=$vc VERIF_REPO=$sc /verif/bin/gosym check $prop quick > $dst/check_output.txt 2>&1); rc=$?
  rm -rf $vc
  git -C /repo worktree remove --force $sc
  if [ $rc -eq 1 ] && grep -q "^VIOLATION property=$prop" $dst/check_output.txt; then detected="yes(scratch)"; else detected="no(rc=$rc,scratch)"; fi
  python3 - <<PY
import json
p='$dst/meta.json'
m=json.load(open(p)); m['detected_by_quick_check']='$detected'; json.dump(m,open(p,'w'),indent=1)
PY
  echo "seed $name: detected=$detected"
done
